package PKG

// C27: grammar compilation never panics. The grammar text is a concrete
// frame (parameter P) around a window of up to N symbolic bytes; the real
// tpl.New (parser + compiler) runs on it. Any escaping panic is the violation.

var vxC27Frames = [][2]string{
	{"a = ", "\n"},
	{"a = ", " b\nb = IDENT\n"},
	{"a = \"", "\"\n"},
	{"a = '", "'\n"},
	{"a = '\\", "'\n"},
	{"a = '\\x", "'\n"},
	{"a = \"\\", "\"\n"},
	{"a = IDENT ", " INT\n"},
	{"a = (", ")\n"},
	{"a = *(", ")\n"},
	{"a = b\nb = ", "\n"},
	{"a = IDENT % ", "\n"},
	{"a = IDENT ++ ", "\n"},
	{"a = IDENT | ", "\n"},
	{"", "\n"},
	{"a = IDENT => {", "}\n"},
	{"a ", " IDENT\n"},
	{"a = `", "`\n"},
	{"a = '\\u00", "'\n"},
	{"a = \"\\x", "\" INT\n"},
}

func VxC27() {
	N := vxParam("N")
	n := vxIntRange(0, N)
	win := vxBytes(n)
	if vxParam("ASCII") == 1 {
		for _, b := range win {
			vxAssume(b < 0x80)
		}
	}
	fr := vxC27Frames[vxParam("P")]
	src := append(append([]byte(fr[0]), win...), []byte(fr[1])...)
	vxNote("grammar", src)
	ret, err := New(string(src))
	if err == nil {
		vxReach("compiled")
		vxAssert(ret.Doc != nil, "no error but no document rule")
	} else {
		vxReach("rejected")
	}
}
