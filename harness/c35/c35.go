package PKG

// C35: ParseAll partitions its arguments in order.

// refIsFile: reference classification written from the documentation of
// filepath.Ext ("the suffix beginning at the final dot in the final
// slash-separated element"): an argument is a file when that suffix has
// at least one character after the dot.
func vxRefIsFile(s string) bool {
	for i := len(s) - 1; i >= 0; i-- {
		c := s[i]
		if c == '/' {
			return false
		}
		if c == '.' {
			return i < len(s)-1
		}
	}
	return false
}

func vxRefIsLocal(s string) bool {
	if len(s) == 0 {
		return false
	}
	c := s[0]
	if c == '/' || c == '\\' || c == '.' {
		return true
	}
	if len(s) >= 2 && s[1] == ':' {
		if 'A' <= c && c <= 'Z' {
			return true
		}
		if 'a' <= c && c <= 'z' {
			return true
		}
	}
	return false
}

func VxC35() {
	K := vxParam("K")
	L := vxParam("L")
	nargs := vxIntRange(0, K)
	args := make([]string, nargs)
	for i := range args {
		n := vxIntRange(0, L)
		args[i] = vxString(n)
	}
	for i, a := range args {
		vxNote("arg"+string(rune('0'+i)), a)
	}
	projs, err := ParseAll(args...)

	anyFile, anyOther := false, false
	for _, a := range args {
		if vxRefIsFile(a) {
			anyFile = true
		} else {
			anyOther = true
		}
	}
	if anyFile && anyOther {
		vxReach("mixed")
		vxAssert(err == ErrMixedFilesProj, "mixed file and non-file arguments must fail with ErrMixedFilesProj")
		return
	}
	vxAssert(err == nil, "unmixed arguments must not fail")
	// concatenation in order, classification, maximal runs
	pos := 0
	prevFiles := false
	for _, p := range projs {
		switch p := p.(type) {
		case *FilesProj:
			vxReach("files")
			vxAssert(!prevFiles, "two adjacent files projects (runs must be maximal)")
			vxAssert(len(p.Files) > 0, "empty files project")
			for _, f := range p.Files {
				vxAssert(pos < len(args), "more arguments out than in")
				vxAssert(f == args[pos], "argument changed or reordered")
				vxAssert(vxRefIsFile(f), "non-file argument inside a files project")
				pos++
			}
			prevFiles = true
		case *DirProj:
			vxReach("dir")
			vxAssert(pos < len(args), "more arguments out than in")
			vxAssert(p.Dir == args[pos], "argument changed or reordered")
			vxAssert(!vxRefIsFile(p.Dir), "file argument classified as directory project")
			vxAssert(vxRefIsLocal(p.Dir), "non-local argument classified as directory project")
			pos++
			prevFiles = false
		case *PkgPathProj:
			vxReach("pkgpath")
			vxAssert(pos < len(args), "more arguments out than in")
			vxAssert(p.Path == args[pos], "argument changed or reordered")
			vxAssert(!vxRefIsFile(p.Path), "file argument classified as package path project")
			vxAssert(!vxRefIsLocal(p.Path), "local argument classified as package path project")
			pos++
			prevFiles = false
		default:
			vxAssert(false, "unknown project type")
		}
	}
	vxAssert(pos == len(args), "arguments lost")
}
