package PKG

// C38: JSON-RPC framing round-trips any message stream; malformed streams
// yield errors, never panics or reads past the declared content length.
//
// encoding/json (reflection) is replaced in the symbolic run by its contract
// on wireCombined (vxMarshal / vxUnmarshal below); headerWriter.Write,
// headerReader.Read, bufio.Reader, strconv.ParseInt, strings.TrimSpace,
// io.ReadFull, EncodeMessage, DecodeMessage, Request/Response.marshal and
// toWireError run for real. Natively the real encoding/json is used.

import (
	"context"
	"encoding/json"
	"errors"
	"io"
)

// ---- contract model of encoding/json on wireCombined --------------------

var vxWires []wireCombined // payload k is the k-th marshalled wire struct

// vxMarshal replaces json.Marshal: the payload is "#<k>" + padding bytes and the
// struct (after omitempty) is remembered under k.
func vxMarshal(v any) ([]byte, error) {
	w, ok := v.(*wireCombined)
	if !ok {
		return nil, errors.New("vxMarshal: unsupported value")
	}
	c := *w
	if len(c.Params) == 0 {
		c.Params = nil
	}
	if len(c.Result) == 0 {
		c.Result = nil
	}
	k := len(vxWires)
	vxWires = append(vxWires, c)
	data := []byte{'#', byte('0' + k)}
	data = append(data, vxPad...)
	return data, nil
}

var vxPad []byte // symbolic padding appended to every payload (framing must not look at it)

// vxUnmarshal replaces json.Unmarshal: numbers decode into `any` as float64.
func vxUnmarshal(data []byte, v any) error {
	w, ok := v.(*wireCombined)
	if !ok {
		return errors.New("vxUnmarshal: unsupported value")
	}
	if string(data) == vxPayload {
		*w = wireCombined{VersionTag: wireVersion, Method: "m"}
		return nil
	}
	if len(data) < 2 || data[0] != '#' || int(data[1]-'0') >= len(vxWires) {
		return errors.New("invalid character")
	}
	c := vxWires[int(data[1]-'0')]
	switch id := c.ID.(type) {
	case int64:
		c.ID = float64(id)
	}
	*w = c
	return nil
}

// ---- byte stream plumbing ------------------------------------------------

type vxSink struct{ b []byte }

func (s *vxSink) Write(p []byte) (int, error) { s.b = append(s.b, p...); return len(p), nil }

// vxChunked hands out the stream with cuts at two symbolic positions.
type vxChunked struct {
	b      []byte
	off    int
	c1, c2 int
}

func (r *vxChunked) Read(p []byte) (int, error) {
	if r.off >= len(r.b) {
		return 0, io.EOF
	}
	end := len(r.b)
	if r.off < r.c1 {
		end = r.c1
	} else if r.off < r.c2 {
		end = r.c2
	}
	n := copy(p, r.b[r.off:end])
	r.off += n
	return n, nil
}

var vxSpecID int64

var vxIDs = []int64{0, 1, -1, 1 << 31, 1 << 53, 1<<53 + 1, 1<<63 - 1, -(1 << 63)}

type vxMsgSpec struct {
	kind   int // 0 notification, 1 call, 2 response, 3 error response
	idKind int // 0 int64, 1 string
	id     int64
	sid    string
	method string
	params int // 0 none, 1 {}, 2 [1]
	code   int64
}

var vxParamsJSON = []string{"", "{}", "[1]"}

func vxGenMsg(i int) (Message, vxMsgSpec) {
	var s vxMsgSpec
	s.kind = vxConcrete(vxIntRange(0, 3))
	s.sid = "s" + string(rune('a'+i))
	s.method = "m" + string(rune('a'+i))
	if vxParam("MODE") == 0 {
		// framing focus: one representative of each message kind
		s.id, s.params = int64(i+1), 1
	} else {
		s.idKind = vxConcrete(vxIntRange(0, 1))
		if vxParam("KF_FLOATID") == 1 {
			s.id = vxIDs[vxConcrete(vxIntRange(0, 4))] // ids that survive the float64 coercion
		} else {
			s.id = vxIDs[vxConcrete(vxIntRange(0, len(vxIDs)-1))]
		}
		s.params = vxConcrete(vxIntRange(0, 2))
		s.code = int64(vxConcrete(vxIntRange(-2, 2)))
	}
	id := Int64ID(s.id)
	if s.idKind == 1 {
		id = StringID(s.sid)
	}
	var raw json.RawMessage
	if s.params > 0 {
		raw = json.RawMessage(vxParamsJSON[s.params])
	}
	switch s.kind {
	case 0:
		return &Request{Method: s.method, Params: raw}, s
	case 1:
		return &Request{ID: id, Method: s.method, Params: raw}, s
	case 2:
		return &Response{ID: id, Result: raw}, s
	default:
		return &Response{ID: id, Error: NewError(s.code, "boom")}, s
	}
}

func vxSameID(a, b ID) bool { return a.Raw() == b.Raw() }

func vxSameMsg(want Message, got Message) string {
	switch w := want.(type) {
	case *Request:
		g, ok := got.(*Request)
		if !ok {
			return "request read back as a different message kind"
		}
		if g.Method != w.Method {
			return "method changed"
		}
		if !vxSameID(g.ID, w.ID) {
			return "request ID changed"
		}
		if string(g.Params) != string(w.Params) {
			return "params changed"
		}
	case *Response:
		g, ok := got.(*Response)
		if !ok {
			return "response read back as a different message kind"
		}
		if !vxSameID(g.ID, w.ID) {
			return "response ID changed"
		}
		if string(g.Result) != string(w.Result) {
			return "result changed"
		}
		if (w.Error == nil) != (g.Error == nil) {
			return "error presence changed"
		}
		if w.Error != nil {
			if g.Error.Error() != w.Error.Error() || !errors.Is(g.Error, w.Error) {
				return "error code or message changed"
			}
		}
	}
	return ""
}

// VxC38Stream: m messages written by the header framer and read back through a
// reader that delivers the bytes in arbitrary pieces.
func VxC38Stream() {
	M := vxParam("M")
	m := vxConcrete(vxIntRange(1, M))
	pad := vxBytes(vxConcrete(vxIntRange(0, vxParam("PAD")))) // (drawn in both modes: same input vector)
	if vxSymbolic() {
		vxWires = nil
		vxPad = pad
	}
	ctx := context.Background()
	sink := &vxSink{}
	w := HeaderFramer().Writer(sink)
	msgs := make([]Message, m)
	sizes := make([]int64, m)
	for i := range msgs {
		var spec vxMsgSpec
		msgs[i], spec = vxGenMsg(i)
		if spec.idKind == 0 && spec.kind != 0 {
			vxSpecID = spec.id
		}
		n, err := w.Write(ctx, msgs[i])
		vxAssert(err == nil, "writing a message failed")
		sizes[i] = n
	}
	total := 0
	for _, s := range sizes {
		total += int(s)
	}
	vxAssert(total == len(sink.b), "Write reported a byte count different from what it wrote")
	// cut points are chosen relative to message boundaries (message k, distance from its start or
	// from its end) so that they mean the same thing for the modelled and the real codec
	c1, c2 := len(sink.b), len(sink.b)
	if vxParam("MODE") == 0 {
		cut := func() int {
			k := vxConcrete(vxIntRange(0, m-1))
			start := 0
			for i := 0; i < k; i++ {
				start += int(sizes[i])
			}
			end := start + int(sizes[k])
			if vxBool() {
				off := vxConcrete(vxIntRange(0, 24)) // inside the header or the first body bytes
				if start+off > end {
					return end
				}
				return start + off
			}
			off := vxConcrete(vxIntRange(0, 3)) // inside the body, counted from the message end
			if end-off < start {
				return start
			}
			return end - off
		}
		c1, c2 = cut(), cut()
		if c2 < c1 {
			c1, c2 = c2, c1
		}
	}
	r := HeaderFramer().Reader(&vxChunked{b: sink.b, c1: c1, c2: c2})
	for i := range msgs {
		got, n, err := r.Read(ctx)
		vxAssert(err == nil, "reading back a written message failed")
		if err != nil {
			return
		}
		vxAssert(n == sizes[i], "Read consumed a different number of bytes than Write produced")
		vxNote("id", int(vxSpecID))
		if diff := vxSameMsg(msgs[i], got); diff != "" {
			vxAssert(false, "message changed in the round trip: "+diff)
		}
	}
	_, n, err := r.Read(ctx)
	vxAssert(err == io.EOF && n == 0, "no clean EOF after the last message")
}

const vxPayload = `{"jsonrpc":"2.0","method":"m"}` // 30 bytes, valid for the real codec too

var vxC38Frames = [][2]string{
	{"", ""},
	{"Content-Length: ", "\r\n\r\n" + vxPayload},
	{"Content-Length:", "\r\n\r\n" + vxPayload},
	{"Content-Length: 30\r\n", "\r\n" + vxPayload},
	{"Content-Length: 30\r\n\r\n", ""},
	{"Content-Length: 2\r\nContent-Length: ", "\r\n\r\n" + vxPayload + "xx"},
	{"X: y\r\nContent-Length: 30", "\n" + vxPayload},
	{"Content-Length: 3", "\r\n\r\n" + vxPayload + vxPayload},
	{"Content-Length: 30\r\n\r\n" + vxPayload[:28], ""},
}

// VxC38Malformed: arbitrary bytes (inside a concrete frame) into the reader.
func VxC38Malformed() {
	N := vxParam("N")
	n := vxConcrete(vxIntRange(0, N))
	win := vxBytes(n)
	fr := vxC38Frames[vxParam("P")]
	stream := append(append([]byte(fr[0]), win...), []byte(fr[1])...)
	vxNote("stream", stream)
	if vxSymbolic() {
		vxWires = []wireCombined{{VersionTag: wireVersion, Method: "m"}}
		vxPad = nil
	}
	src := &vxChunked{b: stream, c1: len(stream), c2: len(stream)}
	r := HeaderFramer().Reader(src)
	msg, total, err := r.Read(context.Background())
	vxAssert(total >= 0 && int(total) <= len(stream), "Read reports more bytes than the stream holds")
	if err == nil {
		vxReach("accepted")
		// only the fixed payload can decode; it must be exactly the bytes that end the consumed
		// prefix, preceded by the header's final line break: nothing past the declared length was read
		req, isReq := msg.(*Request)
		vxAssert(isReq && req.Method == "m", "a message other than the framed payload was produced")
		n := len(vxPayload)
		vxAssert(int(total) >= n+2, "message accepted without a header")
		if int(total) >= n+2 {
			vxAssert(string(stream[int(total)-n:int(total)]) == vxPayload, "payload is not the declared number of bytes after the header")
			vxAssert(stream[int(total)-n-1] == '\n', "header does not end with a line break before the payload")
		}
	} else {
		vxReach("rejected")
	}
}
