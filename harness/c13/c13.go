package PKG

// C13: the parser never panics or hangs and reports sorted errors.
//
// Source = concrete context (parameter P: prefix, suffix, entry point) around
// a window of up to N symbolic bytes; parser mode bits symbolic. The real
// parser (with the real scanner, go/token, go/scanner.ErrorList) runs on it.

import (
	goscanner "go/scanner"

	"github.com/goplus/xgo/ast"
	"github.com/goplus/xgo/token"
)

type vxCtx struct {
	pre, suf string
	kind     int // 0 file, 1 expression, 2 class file
}

var vxC13Ctx = []vxCtx{
	{"", "", 0},
	{"", "", 1},
	{"", "", 2},
	{"x := ", "\n", 0},
	{"func f() {\n\t", "\n}\n", 0},
	{"type T ", "\n", 0},
	{"var (\n\t", "\n)\n", 0},
	{"for ", " {\n}\n", 0},
	{"x := [", "]\n", 0},
	{"echo \"", "\"\n", 0},
	{"echo ", "\n", 0},
	{"import (\n\t", "\n)\n", 0},
	{"x := [a for a in ", "]\n", 0},
	{"x := {a, b", " for x in y}\n", 0},
	{"for a, b", " in x {\n}\n", 0},
	{"x := [1]", "\n", 0},
	{"x := a", "b\n", 0},
	{"x := f(", ")\n", 0},
	{"x := \"${", "}\"\n", 0},
	{"func ", "() {}\n", 0},
	{"x := 1", "\n", 0},
	{"if x ", " {\n}\n", 0},
	{"x := a.", "\n", 0},
	{"var (\n\tx int\n)\n\nfunc ", " {\n}\n", 2},
	{"x := a =>", "\n", 0},
	{"x := tpl`a = ", "`\n", 0},
	{"switch x {\ncase ", ":\n}\n", 0},
	{"x := [][]", "\n", 0},
	{"a[", "] = 1\n", 0},
	{"type T struct {\n\t", "\n}\n", 0},
	{"x := a ? ", "\n", 0},
	{"x := <-", "\n", 0},
	{"go ", "\n", 0},
	{"x := map[", "]int{}\n", 0},
	{"x := func(", ") {}\n", 0},
	{"x, ", " := 1, 2\n", 0},
	{"x := () => {", "}\n", 0},
	{"x := () => { goto ", " }\n", 0},
	{"x := (a) => {\n\t", "\n}\n", 0},
	{"a := x`> 1 +, ", "`\n", 0},
	{"echo \"${ () => { ", " } }\"\n", 0},
	{"f(x => x*2", ")\n", 0},
	{"for i in 0:10", " {\n}\n", 0},
	{"x := a?:", "\n", 0},
	{"x := [a, b", "]\n", 0},
	{"x := a!", "\n", 0},
	{"var x = () => {", "}\n", 0},
	{"var x = () => { goto ", " }\n", 0},
	// XGo-specific shapes added after the second seeding round
	{"ch <- a", "\n", 0},
	{"x := json`{", "}`\n", 0},
	{"echo html`<b>", "</b>`, 1\n", 0},
	{"echo (a, b", ")\n", 0},
	{"x := (a, b", ") => a\n", 0},
	{"func (T).", " = (a; b)\n", 0},
	{"func add = (\n\tfunc(a, b int) int {\n\t\treturn a + b\n\t}\n\t", "\n)\n", 0},
	{"x := [1, 2; 3, ", "]\n", 0},
	{"x := ${", "}\n", 0},
	{"x := a[1:", "]\n", 0},
	{"x := 1:10:", "\n", 0},
	{"for x in [1, 2] if x", " {\n}\n", 0},
	{"x := {\"a\": 1, ", "}\n", 0},
	{"defer f(", ")\n", 0},
	{"x := f(a...", ")\n", 0},
	{"type T interface {\n\t", "\n}\n", 0},
	{"x := py\"", "\"\n", 0},
	{"x := 1", "px\n", 0},
	{"func (a T) ", " (b T) T {\n\treturn a\n}\n", 0},
	{"x := a ", " b\n", 0},
	{"echo (a, b.", ")\n", 0},
	{"f(a, b.", ")\n", 0},
}

func vxHasBad(f ast.Node) (bad bool, walked bool) {
	defer func() {
		if recover() != nil {
			walked = false // ast.Walk does not know this node kind (C18's subject)
		}
	}()
	walked = true
	ast.Inspect(f, func(n ast.Node) bool {
		switch n.(type) {
		case *ast.BadExpr, *ast.BadStmt, *ast.BadDecl:
			bad = true
		}
		return true
	})
	return
}

func VxC13() {
	N := vxParam("N")
	n := vxIntRange(0, N)
	win := vxBytes(n)
	for _, b := range win {
		vxAssume(b < 0x80)
	}
	c := vxC13Ctx[vxParam("P")]
	src := append(append([]byte(c.pre), win...), []byte(c.suf)...)
	vxNote("src", src)
	mode := Mode(0)
	if vxBool() {
		mode |= ParseComments
	}
	if vxBool() {
		mode |= AllErrors
	}
	fset := token.NewFileSet()
	var err error
	var root ast.Node
	switch c.kind {
	case 0:
		var f *ast.File
		f, err = ParseFile(fset, "a.xgo", src, mode)
		vxAssert(f != nil, "ParseFile returned no tree")
		if f != nil {
			root = f
		}
	case 1:
		var e ast.Expr
		e, err = ParseExprFrom(fset, "a.xgo", src, mode)
		if e != nil {
			root = e
		}
	default:
		var f *ast.File
		f, err = ParseFile(fset, "a.gox", src, mode|ParseGoPlusClass)
		vxAssert(f != nil, "ParseFile returned no tree")
		if f != nil {
			root = f
		}
	}
	if err == nil {
		vxReach("accepted")
		if root != nil {
			bad, walked := vxHasBad(root)
			if walked {
				vxAssert(!bad, "nil error but the tree contains a Bad node")
			}
		}
		return
	}
	vxReach("rejected")
	if el, ok := err.(goscanner.ErrorList); ok {
		for i, e := range el {
			vxAssert(e.Pos.Offset >= 0 && e.Pos.Offset <= len(src), "error position outside the file")
			if i > 0 {
				p, q := el[i-1].Pos, e.Pos
				sorted := p.Filename < q.Filename ||
					(p.Filename == q.Filename && (p.Line < q.Line || (p.Line == q.Line && p.Column <= q.Column)))
				vxAssert(sorted, "error list not sorted by position")
			}
		}
	}
}
