package PKG

// C30: TPL result helpers fold lists left to right.
// The match result of R % sep is built with symbolic operands and
// separator tokens; the combining callback is UNINTERPRETED
// (vxUF("f", op, x, y)), so only the exact left-nested application term
// satisfies the assertions for every interpretation of f.

import (
	xast "github.com/goplus/xgo/tpl/ast"
	"github.com/goplus/xgo/tpl/scanner"
	"github.com/goplus/xgo/tpl/token"
)

// vxMkList builds the R % sep result [x0, [[op1, x1], ...]] for m separators.
func vxMkList(m int, xs []any, ops []*Token) []any {
	rest := make([]any, m)
	for i := 0; i < m; i++ {
		rest[i] = []any{ops[i], xs[i+1]}
	}
	return []any{xs[0], rest}
}

func vxF(op *Token, x, y any) any {
	return vxUF("f", int(op.Tok), x.(int), y.(int))
}

func VxC30Fold() {
	M := vxParam("M")
	m := vxConcrete(vxIntRange(0, M))
	vals := make([]int, m+1)
	xs := make([]any, m+1)
	ops := make([]*Token, m)
	for i := range vals {
		vals[i] = vxInt()
		xs[i] = vals[i]
	}
	for i := range ops {
		ops[i] = &Token{Tok: token.Token(uint(vxIntRange(1, 200))), Pos: token.Pos(10 + i)}
	}
	in := vxMkList(m, xs, ops)

	// expected: f(op_m, ... f(op_2, f(op_1, x0, x1), x2) ..., x_m)
	exp := vals[0]
	for i := 0; i < m; i++ {
		exp = vxUF("f", int(ops[i].Tok), exp, vals[i+1])
	}
	got := BinaryOpNR(in, vxF)
	vxAssert(got.(int) == exp, "BinaryOpNR is not the left fold of the operands with the separators in order")
	got2 := BinaryOp(false, in, vxF)
	vxAssert(got2.(int) == exp, "BinaryOp(false) is not the left fold")
	got3 := BinaryOp(true, in, vxF)
	vxAssert(got3.(int) == exp, "BinaryOp(true) on a flat list is not the left fold")

	// List / ListOp / RangeOp: R results in source order
	l := List(in)
	vxAssert(len(l) == m+1, "List length")
	for i := range l {
		vxAssert(l[i].(int) == vals[i], "List does not return the R results in source order")
	}
	lo := ListOp(in, func(v any) int { return vxUF("g", v.(int)) })
	vxAssert(len(lo) == m+1, "ListOp length")
	for i := range lo {
		vxAssert(lo[i] == vxUF("g", vals[i]), "ListOp does not map the R results in source order")
	}
	var seen []int
	RangeOp(in, func(v any) { seen = append(seen, v.(int)) })
	vxAssert(len(seen) == m+1, "RangeOp visit count")
	for i := range seen {
		vxAssert(seen[i] == vals[i], "RangeOp does not visit the R results in source order")
	}
}

// Nested lists to depth D: at every level one operand (any position, first or right) may itself be an
// R % sep result, as in operand % mulop % addop % ... grammars.
// vxNest returns the result structure, the expected left-fold term (BinaryOpR) and a structural
// description of the expected tree (BinaryExprR).
type vxTree struct {
	leaf *xast.Ident
	op   *Token
	x, y *vxTree
}

func vxNest(depth, M int, asExpr bool) (any, int, *vxTree) {
	if depth == 0 {
		if asExpr {
			id := &xast.Ident{Name: "v"}
			return xast.Expr(id), 0, &vxTree{leaf: id}
		}
		v := vxInt()
		return v, v, nil
	}
	lo := 0
	if depth == vxParam("D") {
		lo = 1
	}
	m := vxConcrete(vxIntRange(lo, M))
	k := vxConcrete(vxIntRange(0, m)) // which operand is nested one level deeper
	xs := make([]any, m+1)
	vals := make([]int, m+1)
	trees := make([]*vxTree, m+1)
	ops := make([]*Token, m)
	for i := range xs {
		d := 0
		if i == k {
			d = depth - 1
		}
		xs[i], vals[i], trees[i] = vxNest(d, 2, asExpr)
	}
	for i := range ops {
		ops[i] = &Token{Tok: token.Token(uint(vxIntRange(1, 200))), Pos: token.Pos(vxIntRange(1, 1000))}
	}
	exp, tr := vals[0], trees[0]
	for i := 0; i < m; i++ {
		if asExpr {
			tr = &vxTree{op: ops[i], x: tr, y: trees[i+1]}
		} else {
			exp = vxUF("f", int(ops[i].Tok), exp, vals[i+1])
		}
	}
	return vxMkList(m, xs, ops), exp, tr
}

func vxSameTree(e xast.Expr, t *vxTree) bool {
	if t.leaf != nil {
		return e == xast.Expr(t.leaf)
	}
	b, ok := e.(*xast.BinaryExpr)
	return ok && int(b.Op) == int(t.op.Tok) && b.OpPos == t.op.Pos && vxSameTree(b.X, t.x) && vxSameTree(b.Y, t.y)
}

func VxC30Nested() {
	in, exp, _ := vxNest(vxParam("D"), vxParam("M"), false)
	got := BinaryOpR(in.([]any), vxF)
	vxAssert(got.(int) == exp, "BinaryOpR does not fold nested lists recursively, left to right")
	got2 := BinaryOp(true, in.([]any), vxF)
	vxAssert(got2.(int) == exp, "BinaryOp(true) does not fold nested lists recursively, left to right")
}

func VxC30NestedExpr() {
	in, _, tr := vxNest(vxParam("D"), vxParam("M"), true)
	vxAssert(vxSameTree(BinaryExprR(in.([]any)), tr), "BinaryExprR does not build the left-nested tree of nested lists")
	vxAssert(vxSameTree(BinaryExpr(true, in.([]any)), tr), "BinaryExpr(true) does not build the left-nested tree of nested lists")
}

// BinaryExpr / BinaryExprNR / BinaryExprR build the left-nested tree.
func VxC30Expr() {
	M := vxParam("M")
	m := vxConcrete(vxIntRange(0, M))
	xs := make([]any, m+1)
	ids := make([]*xast.Ident, m+1)
	ops := make([]*Token, m)
	for i := range xs {
		ids[i] = &xast.Ident{Name: "v"}
		xs[i] = xast.Expr(ids[i])
	}
	for i := range ops {
		ops[i] = &Token{Tok: token.Token(uint(vxIntRange(1, 200))), Pos: token.Pos(vxIntRange(1, 1000))}
	}
	in := vxMkList(m, xs, ops)
	for variant := 0; variant < 3; variant++ {
		var e xast.Expr
		switch variant {
		case 0:
			e = BinaryExprNR(in)
		case 1:
			e = BinaryExprR(in)
		default:
			e = BinaryExpr(false, in)
		}
		// peel from the outside: the outermost node carries the last separator
		for i := m - 1; i >= 0; i-- {
			b, ok := e.(*xast.BinaryExpr)
			vxAssert(ok, "BinaryExpr result is not left-nested")
			vxAssert(int(b.Op) == int(ops[i].Tok), "separator out of order in BinaryExpr")
			vxAssert(b.OpPos == ops[i].Pos, "separator position lost in BinaryExpr")
			vxAssert(b.Y == xast.Expr(ids[i+1]), "operand out of order in BinaryExpr")
			e = b.X
		}
		vxAssert(e == xast.Expr(ids[0]), "first operand lost in BinaryExpr")
	}
}

// Calculator: grammar from the README (ints instead of floats), compiled by the
// real tpl.New, evaluated on a symbolic token stream and compared with a
// precedence-climbing evaluator.
const vxCalcGrammar = `
expr = operand % ("*" | "/") % ("+" | "-")
operand = basicLit | unaryExpr | parenExpr
unaryExpr = "-" operand
parenExpr = "(" expr ")"
basicLit = INT
`

func vxArith(op token.Token, x, y int) int {
	switch op {
	case '+':
		return x + y
	case '-':
		return x - y
	case '*':
		return x * y
	case '/':
		if y == 0 {
			return 0
		}
		return x / y
	}
	panic("unexpected operator")
}

type vxCalc struct {
	toks []Token
	i    int
	ok   bool
}

func (c *vxCalc) peek() token.Token {
	if c.i < len(c.toks) {
		return c.toks[c.i].Tok
	}
	return token.EOF
}

func (c *vxCalc) operand() int {
	switch c.peek() {
	case token.INT:
		v := int(c.toks[c.i].Lit[0] - '0')
		c.i++
		return v
	case '-':
		c.i++
		return -c.operand()
	case '(':
		c.i++
		v := c.expr(1)
		if c.peek() != ')' {
			c.ok = false
			return 0
		}
		c.i++
		return v
	}
	c.ok = false
	return 0
}

func vxPrec(t token.Token) int {
	switch t {
	case '+', '-':
		return 1
	case '*', '/':
		return 2
	}
	return 0
}

func (c *vxCalc) expr(minPrec int) int {
	x := c.operand()
	for c.ok {
		op := c.peek()
		p := vxPrec(op)
		if p < minPrec || p == 0 {
			break
		}
		c.i++
		y := c.expr(p + 1)
		if !c.ok {
			break
		}
		x = vxArith(op, x, y)
	}
	return x
}

func VxC30Calc() {
	cl, err := New(vxCalcGrammar,
		"expr", func(self []any) any {
			return BinaryOp(true, self, func(op *Token, x, y any) any {
				return vxArith(op.Tok, x.(int), y.(int))
			})
		},
		"unaryExpr", func(self []any) any { return -(self[1].(int)) },
		"parenExpr", func(self []any) any { return self[1] },
		"basicLit", func(self any) any { return int(self.(*Token).Lit[0] - '0') },
	)
	vxAssert(err == nil, "calculator grammar does not compile")
	n := vxConcrete(vxIntRange(1, vxParam("NTOK")))
	toks := make([]Token, n)
	for i := range toks {
		k := vxIntRange(0, 6)
		var t Token
		switch {
		case k == 0:
			d := vxByte()
			vxAssume(d >= '0' && d <= '9')
			t = Token{Tok: token.INT, Lit: string([]byte{d})}
		case k == 1:
			t = Token{Tok: '+'}
		case k == 2:
			t = Token{Tok: '-'}
		case k == 3:
			t = Token{Tok: '*'}
		case k == 4:
			t = Token{Tok: '/'}
		case k == 5:
			t = Token{Tok: '('}
		default:
			t = Token{Tok: ')'}
		}
		t.Pos = token.Pos(1 + 2*i)
		toks[i] = t
		vxNote("tok"+string(rune('0'+i)), t.String())
	}
	ref := &vxCalc{toks: toks, ok: true}
	want := ref.expr(1)
	refOK := ref.ok && ref.i == len(toks)

	got, perr := cl.ParseExpr("", &Config{Scanner: &vxCalcStream{toks: toks}})
	if refOK {
		vxReach("well-formed")
		vxAssert(perr == nil, "calculator rejects a well-formed expression")
		vxAssert(got.(int) == want, "calculator result differs from the precedence-climbing evaluator")
	} else {
		vxReach("ill-formed")
		vxAssert(perr != nil, "calculator accepts an ill-formed expression")
	}
}

type vxCalcStream struct {
	toks []Token
	i    int
}

func (s *vxCalcStream) Init(file *token.File, src []byte, err scanner.ErrorHandler, mode scanner.Mode) {}

func (s *vxCalcStream) Scan() Token {
	if s.i >= len(s.toks) {
		return Token{Tok: token.EOF}
	}
	t := s.toks[s.i]
	s.i++
	return t
}
