package PKG

// C24: RearrangeFuncs only reorders top-level chunks.
//
// A script is assembled from K statements chosen by symbolic selectors out
// of a table of statement templates (function declarations, methods,
// declarations, plain statements, function literals, comments, braces),
// joined by symbolic separators. Because the harness assembles the text it
// knows every chunk boundary and every statement's class by construction:
// that is the oracle, independent of splitStmts/isFuncDecl.

import (
	"github.com/goplus/xgo/format"
)

const (
	vxClsFunc = iota // function (or method) declaration
	vxClsDecl        // const / type / var declaration
	vxClsStmt        // anything else
)

type vxStmtT struct {
	text string
	cls  int
}

var vxStmts = []vxStmtT{
	{"func f#() {}", vxClsFunc},
	{"func f#(a int) (r int) { return a }", vxClsFunc},
	{"// doc\nfunc f#() {\n\tprintln(1)\n}", vxClsFunc},
	{"func /* c */ f#() {}", vxClsFunc},
	{"func (p *T) m#() {}", vxClsFunc},
	{"var v# = 1", vxClsDecl},
	{"const c# = 1", vxClsDecl},
	{"type T# struct{}", vxClsDecl},
	{"var (\n\ta# = 1\n\tb# = func() int { return 2 }\n)", vxClsDecl},
	{"x# := 1", vxClsStmt},
	{"println(#)", vxClsStmt},
	{"func() { println(#) }()", vxClsStmt},
	{"if true {\n\ty# := 2\n\t_ = y#\n}", vxClsStmt},
	{"g# := func(a int) int { return a }", vxClsStmt},
	{"// note\nprintln(#)", vxClsStmt},
	{"func(a int) {\n\t_ = a\n}(#)", vxClsStmt},
	{"x# := 1 // trailing", vxClsStmt},
	{"func() int { return # }()", vxClsStmt},
}

var vxSeps = []string{"\n", "\n\n", "; "}

func vxInst(t string, i int) string {
	out := ""
	for k := 0; k < len(t); k++ {
		if t[k] == '#' {
			out += string(rune('0' + i))
		} else {
			out += string(t[k])
		}
	}
	return out
}

func VxC24() {
	K := vxParam("K")
	k := vxConcrete(vxIntRange(0, K))
	nT := vxParam("NT")
	var chunks []string
	var cls []int
	src := ""
	edge := vxParam("EDGE") == 1
	noFinalNewline := edge && vxBool()
	if edge && vxBool() {
		// an import declaration in front of everything else
		c := "import \"fmt\"\n"
		chunks = append(chunks, c)
		cls = append(cls, vxClsDecl)
		src += c
	}
	for i := 0; i < k; i++ {
		sel := vxConcrete(vxIntRange(0, nT-1))
		sep := vxSeps[vxConcrete(vxIntRange(0, len(vxSeps)-1))]
		if i == k-1 {
			sep = "\n"
			if noFinalNewline {
				sep = "" // the source does not end in a newline
			}
		}
		lead := ""
		if vxParam("LEAD") == 1 && vxBool() {
			lead = "// lead " + string(rune('0'+i)) + "\n" // a leading comment belongs to the chunk that follows it
		}
		c := lead + vxInst(vxStmts[sel].text, i) + sep
		chunks = append(chunks, c)
		cls = append(cls, vxStmts[sel].cls)
		src += c
	}
	vxNote("src", src)
	// "stmt; // comment\nfunc ..." is ambiguous (the comment trails the statement on its line and precedes
	// the function): such texts are not generated
	for i := 0; i+1 < len(chunks); i++ {
		c, n := chunks[i], chunks[i+1]
		if len(c) >= 2 && c[len(c)-2:] == "; " && len(n) >= 2 && n[:2] == "//" {
			vxAssume(false)
		}
		if len(c) >= 13 && c[len(c)-13:] == "// trailing; " {
			vxAssume(false) // the separator would be part of the comment
		}
	}

	out, err := RearrangeFuncs([]byte(src))
	vxAssert(err == nil, "RearrangeFuncs failed")
	vxObserve("out", string(out))

	// expected, by construction
	first := -1
	for i := range cls {
		if cls[i] == vxClsStmt {
			first = i
			break
		}
	}
	want := ""
	if first < 0 {
		want = src
	} else {
		for i := 0; i < first; i++ {
			want += chunks[i]
		}
		for i := first; i < len(chunks); i++ {
			if cls[i] == vxClsFunc {
				want += chunks[i]
			}
		}
		for i := first; i < len(chunks); i++ {
			if cls[i] != vxClsFunc {
				want += chunks[i]
			}
		}
	}
	vxAssert(len(out) == len(src), "bytes added or lost by RearrangeFuncs")
	vxAssert(string(out) == want, "RearrangeFuncs is not the stable hoisting of function declarations over top-level chunks")

	if vxParam("FMT") == 1 {
		// SourceEx succeeds whenever Source succeeds on the original or on the rearrangement
		_, e1 := format.Source([]byte(src), false)
		_, e2 := format.Source(out, false)
		_, e3 := SourceEx([]byte(src), false)
		if e1 == nil || e2 == nil {
			vxAssert(e3 == nil, "SourceEx fails although Source succeeds on the original or the rearrangement")
		}
	}
}
