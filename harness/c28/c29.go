package PKG

// C29: grammar matching follows the documented TPL semantics. The real
// matcher (grammar compiled by tpl.New from generated text) and the
// README-derived reference matcher run on the same symbolic token input;
// success/failure, tokens consumed and the result tree must agree.

func VxC29() {
	g, text, bsel := vxBuildGrammar()
	vxNote("grammar", text)
	c, err := New(text)
	if err != nil {
		vxReach("rejected")
		return
	}
	n := vxConcrete(vxIntRange(0, vxParam("NTOK")))
	toks := vxGenTokens(n)
	for i := range toks {
		vxNote("tok"+string(rune('0'+i)), toks[i].String())
		vxNote("pos"+string(rune('0'+i)), int(toks[i].Pos))
	}
	ms, result, merr := c.Match("", "", &Config{Scanner: &vxTokStream{toks: toks}})

	// reference, on the very token objects the matcher saw
	var bBody *vxG
	switch bsel {
	case 0:
		bBody = &vxG{kind: vxgAtom, atom: vxaINT}
	case 1:
		bBody = &vxG{kind: vxgOpt, a: &vxG{kind: vxgAtom, atom: vxaINT}}
	case 2:
		bBody = &vxG{kind: vxgSeq, a: &vxG{kind: vxgAtom, atom: vxaRefA}, b: &vxG{kind: vxgAtom, atom: vxaINT}}
	default:
		bBody = &vxG{kind: vxgSeq, a: &vxG{kind: vxgStar, a: &vxG{kind: vxgAtom, atom: vxaINT}}, b: &vxG{kind: vxgAtom, atom: vxaPLUS}}
	}
	ref := &vxRef{rules: map[int]*vxG{vxaRefB: bBody, vxaRefA: g}, fuel: 400}
	if merr == nil {
		ref.toks = ms.Toks
	} else {
		// on failure MatchState carries no tokens: rebuild pointers (identity is only compared on success)
		for i := range toks {
			ref.toks = append(ref.toks, &toks[i])
		}
	}
	ok, rn, rres := ref.match(g, 0)
	if ref.out {
		vxReach("reference-undefined")
		return // repetition of a nullable operand / unbounded recursion: the README gives no meaning (termination is C28)
	}
	vxReach("compared")
	if ok {
		vxAssert(merr == nil, "reference semantics match, the matcher reports an error")
		vxAssert(ms.N == rn, "number of tokens consumed differs from the README semantics")
		vxAssert(vxSameTree(result, rres), "result tree differs from the README semantics")
	} else {
		vxAssert(merr != nil, "reference semantics do not match, the matcher succeeds")
	}
}
