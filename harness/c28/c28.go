package PKG

// C28: grammar matching always terminates (or the grammar is rejected at
// compile time). Grammars come from the generator (including nullable
// repetitions and left recursion), are compiled by the real tpl.New from
// text, and matched by the real Compiler.Match against n symbolic tokens.
// Non-termination shows up as an exceeded instruction budget (the budget
// is far above the cost of any terminating match of these sizes) and is
// confirmed natively under a wall-clock limit.

func vxBuildGrammar() (*vxG, string, int) {
	D := vxParam("D")
	natoms := vxParam("ATOMS")
	var g *vxG
	if vxParam("FAM") == 1 {
		g = vxGenRep()
	} else if vxParam("FAM") == 2 {
		g = vxGenChoiceSeq()
	} else {
		g = vxGen(D, natoms, vxParam("LEAFBIN") == 1)
	}
	bsel := 0
	if natoms > vxaRefB {
		bsel = vxConcrete(vxIntRange(0, vxParam("NB")-1))
	}
	text := "a = " + g.text() + "\n" + vxRuleB[bsel]
	return g, text, bsel
}

func VxC28() {
	_, text, _ := vxBuildGrammar()
	vxNote("grammar", text)
	c, err := New(text)
	if err != nil {
		vxReach("rejected")
		return
	}
	n := vxConcrete(vxIntRange(0, vxParam("NTOK")))
	toks := vxGenTokens(n)
	vxReach("matching")
	_, _, _ = c.Match("", "", &Config{Scanner: &vxTokStream{toks: toks}})
	vxReach("terminated")
}
