package PKG

// Shared by C28 and C29: a generator of TPL grammars driven by symbolic
// selectors (the engine forks over them: one grammar per path prefix), a
// token-stream stub delivering symbolic tokens to the real Compiler.Match,
// and a reference matcher written from tpl/README.md.

import (
	"github.com/goplus/xgo/tpl/scanner"
	"github.com/goplus/xgo/tpl/token"
)

// ---- grammar generator ------------------------------------------------

const (
	vxgAtom = iota
	vxgSeq
	vxgChoice
	vxgStar
	vxgPlus
	vxgOpt
	vxgList
	vxgAdjoin
	vxgChoice3 // a | b | c  (one flat three-way choice, as the parser builds it)
	vxgSeq3    // a b c
	vxgKinds
)

const (
	vxaIDENT = iota
	vxaINT
	vxaPLUS  // "+"
	vxaEMPTY // ""
	vxaKW    // "x" (keyword literal: IDENT with that spelling)
	vxaRefB  // reference to rule b
	vxaRefA  // reference to the rule being defined (recursion)
	vxaAtoms
)

type vxG struct {
	kind int
	atom int
	a, b *vxG
	c    *vxG
}

// vxGen builds an expression of depth <= depth from symbolic selectors.
// natoms limits the atom alphabet (recursion atoms are last).
func vxGen(depth, natoms int, binLeafOnly bool) *vxG {
	k := vxgAtom
	if depth > 0 {
		k = vxConcrete(vxIntRange(0, vxgKinds-1))
	}
	g := &vxG{kind: k}
	switch k {
	case vxgAtom:
		g.atom = vxConcrete(vxIntRange(0, natoms-1))
	case vxgStar, vxgPlus, vxgOpt:
		g.a = vxGen(depth-1, natoms, binLeafOnly)
	case vxgChoice3, vxgSeq3:
		g.a = vxGen(depth-1, natoms, binLeafOnly)
		g.b = vxGen(0, natoms, binLeafOnly)
		g.c = vxGen(0, natoms, binLeafOnly)
	default:
		g.a = vxGen(depth-1, natoms, binLeafOnly)
		if binLeafOnly {
			g.b = vxGen(0, natoms, binLeafOnly)
		} else {
			g.b = vxGen(depth-1, natoms, binLeafOnly)
		}
	}
	return g
}

// vxGenRep builds the family "repetition of a multi-token operand": U(x y), U(x y) z, z U(x y) and
// U(x ++ y) z with U in {*, +, ?} and x, y, z in {IDENT, INT, "+"}: the operand of the repetition can
// fail after it has consumed tokens, which is where partial iterations must not count.
func vxGenRep() *vxG {
	atom := func() *vxG { return &vxG{kind: vxgAtom, atom: []int{vxaIDENT, vxaINT, vxaPLUS}[vxConcrete(vxIntRange(0, 2))]} }
	inner := &vxG{kind: vxgSeq, a: atom(), b: atom()}
	if vxConcrete(vxIntRange(0, 1)) == 0 {
		inner.kind = vxgAdjoin
	}
	u := &vxG{kind: []int{vxgStar, vxgPlus, vxgOpt}[vxConcrete(vxIntRange(0, 2))], a: inner}
	switch vxConcrete(vxIntRange(0, 2)) {
	case 0:
		return u
	case 1:
		return &vxG{kind: vxgSeq, a: u, b: atom()}
	}
	return &vxG{kind: vxgSeq, a: atom(), b: u}
}

// vxGenChoiceSeq builds the family "choice between multi-token alternatives": (x y | z w) and
// (x y | z w | v) with atoms in {IDENT, INT, "+", "x"}: the first alternative can fail after its first
// token matched, and a later alternative must still be tried.
func vxGenChoiceSeq() *vxG {
	atom := func() *vxG { return &vxG{kind: vxgAtom, atom: []int{vxaIDENT, vxaINT, vxaPLUS, vxaKW}[vxConcrete(vxIntRange(0, 3))]} }
	s1 := &vxG{kind: vxgSeq, a: atom(), b: atom()}
	s2 := &vxG{kind: vxgSeq, a: atom(), b: atom()}
	if vxConcrete(vxIntRange(0, 1)) == 0 {
		return &vxG{kind: vxgChoice, a: s1, b: s2}
	}
	return &vxG{kind: vxgChoice3, a: s1, b: s2, c: atom()}
}

var vxAtomText = []string{"IDENT", "INT", "\"+\"", "\"\"", "\"x\"", "b", "a"}

func (g *vxG) text() string {
	switch g.kind {
	case vxgAtom:
		return vxAtomText[g.atom]
	case vxgSeq:
		return "(" + g.a.text() + " " + g.b.text() + ")"
	case vxgChoice:
		return "(" + g.a.text() + " | " + g.b.text() + ")"
	case vxgStar:
		return "*" + g.a.text()
	case vxgPlus:
		return "+" + g.a.text()
	case vxgOpt:
		return "?" + g.a.text()
	case vxgList:
		return "(" + g.a.text() + " % " + g.b.text() + ")"
	case vxgAdjoin:
		return "(" + g.a.text() + " ++ " + g.b.text() + ")"
	case vxgChoice3:
		return "(" + g.a.text() + " | " + g.b.text() + " | " + g.c.text() + ")"
	case vxgSeq3:
		return "(" + g.a.text() + " " + g.b.text() + " " + g.c.text() + ")"
	}
	return "?"
}

var vxRuleB = []string{"b = INT\n", "b = ?INT\n", "b = a INT\n", "b = *INT \"+\"\n",
	// left recursion inside the second rule only (through ?, * and a third rule): not visible from the first rule's FIRST set
	"b = ?b INT\n", "b = *b \"+\"\n", "b = c INT\nc = ?b \"x\"\n"}

// ---- token stream stub ------------------------------------------------

type vxTokStream struct {
	toks []Token
	i    int
}

func (s *vxTokStream) Init(file *token.File, src []byte, err scanner.ErrorHandler, mode scanner.Mode) {}

func (s *vxTokStream) Scan() Token {
	if s.i >= len(s.toks) {
		return Token{Tok: token.EOF}
	}
	t := s.toks[s.i]
	s.i++
	return t
}

// vxGenTokens builds n symbolic tokens: kind in {IDENT "x", IDENT "y", INT, "+", ";"},
// each directly adjacent to its predecessor or separated by one blank.
func vxGenTokens(n int) []Token {
	toks := make([]Token, n)
	pos := token.Pos(1)
	for i := range toks {
		k := vxIntRange(0, 4)
		var t Token
		switch {
		case k == 0:
			t = Token{Tok: token.IDENT, Lit: "x"}
		case k == 1:
			t = Token{Tok: token.IDENT, Lit: "y"}
		case k == 2:
			t = Token{Tok: token.INT, Lit: "1"}
		case k == 3:
			t = Token{Tok: token.ADD}
		default:
			t = Token{Tok: token.SEMICOLON, Lit: ";"}
		}
		if vxBool() {
			pos++ // one blank before this token
		}
		t.Pos = pos
		pos += 1
		toks[i] = t
	}
	return toks
}

// ---- reference matcher (tpl/README.md) --------------------------------

type vxRef struct {
	toks  []*Token
	rules map[int]*vxG // atom id of a reference -> body
	fuel  int
	out   bool // fuel exhausted: no verdict
}

func (r *vxRef) nullable(g *vxG, depth int) bool {
	if depth > 8 {
		return false
	}
	switch g.kind {
	case vxgAtom:
		if g.atom == vxaEMPTY {
			return true
		}
		if body, ok := r.rules[g.atom]; ok {
			return r.nullable(body, depth+1)
		}
		return false
	case vxgSeq, vxgList:
		if g.kind == vxgList {
			return r.nullable(g.a, depth+1)
		}
		return r.nullable(g.a, depth+1) && r.nullable(g.b, depth+1)
	case vxgChoice:
		return r.nullable(g.a, depth+1) || r.nullable(g.b, depth+1)
	case vxgChoice3:
		return r.nullable(g.a, depth+1) || r.nullable(g.b, depth+1) || r.nullable(g.c, depth+1)
	case vxgSeq3:
		return r.nullable(g.a, depth+1) && r.nullable(g.b, depth+1) && r.nullable(g.c, depth+1)
	case vxgStar, vxgOpt:
		return true
	case vxgPlus:
		return r.nullable(g.a, depth+1)
	case vxgAdjoin:
		return false
	}
	return false
}

// match returns (ok, tokens consumed, result) for g at position at.
func (r *vxRef) match(g *vxG, at int) (bool, int, any) {
	r.fuel--
	if r.fuel < 0 {
		r.out = true
		return false, 0, nil
	}
	switch g.kind {
	case vxgAtom:
		if g.atom == vxaEMPTY {
			return true, 0, nil
		}
		if body, ok := r.rules[g.atom]; ok {
			return r.match(body, at)
		}
		if at >= len(r.toks) {
			return false, 0, nil
		}
		t := r.toks[at]
		switch g.atom {
		case vxaIDENT:
			if t.Tok == token.IDENT {
				return true, 1, t
			}
		case vxaINT:
			if t.Tok == token.INT {
				return true, 1, t
			}
		case vxaPLUS:
			if t.Tok == token.ADD {
				return true, 1, t
			}
		case vxaKW:
			if t.Tok == token.IDENT && t.Lit == "x" {
				return true, 1, t
			}
		}
		return false, 0, nil
	case vxgSeq:
		ok, n1, r1 := r.match(g.a, at)
		if !ok {
			return false, 0, nil
		}
		ok, n2, r2 := r.match(g.b, at+n1)
		if !ok {
			return false, 0, nil
		}
		return true, n1 + n2, []any{r1, r2}
	case vxgChoice:
		// ordered choice: the first alternative that matches wins
		if ok, n, res := r.match(g.a, at); ok {
			return true, n, res
		}
		if r.out {
			return false, 0, nil
		}
		return r.match(g.b, at)
	case vxgChoice3:
		for _, opt := range []*vxG{g.a, g.b, g.c} {
			if ok, n, res := r.match(opt, at); ok {
				return true, n, res
			}
			if r.out {
				return false, 0, nil
			}
		}
		return false, 0, nil
	case vxgSeq3:
		ok, n1, r1 := r.match(g.a, at)
		if !ok {
			return false, 0, nil
		}
		ok, n2, r2 := r.match(g.b, at+n1)
		if !ok {
			return false, 0, nil
		}
		ok, n3, r3 := r.match(g.c, at+n1+n2)
		if !ok {
			return false, 0, nil
		}
		return true, n1 + n2 + n3, []any{r1, r2, r3}
	case vxgStar, vxgPlus:
		rets := []any{}
		n := 0
		for {
			ok, n1, r1 := r.match(g.a, at+n)
			if r.out {
				return false, 0, nil
			}
			if !ok {
				break
			}
			rets = append(rets, r1)
			n += n1
			if n1 == 0 {
				// a repetition whose operand matches without consuming input never ends
				r.out = true
				return false, 0, nil
			}
		}
		if g.kind == vxgPlus && len(rets) == 0 {
			return false, 0, nil
		}
		return true, n, rets
	case vxgOpt:
		if ok, n, res := r.match(g.a, at); ok {
			return true, n, res
		}
		return true, 0, nil
	case vxgList:
		// R1 % R2 is R1 *(R2 R1): [r1, [[sep, r], ...]]
		ok, n, first := r.match(g.a, at)
		if !ok {
			return false, 0, nil
		}
		rest := []any{}
		for {
			ok, n1, sep := r.match(g.b, at+n)
			if r.out {
				return false, 0, nil
			}
			if !ok {
				break
			}
			ok, n2, item := r.match(g.a, at+n+n1)
			if r.out {
				return false, 0, nil
			}
			if !ok {
				break
			}
			if n1+n2 == 0 {
				r.out = true
				return false, 0, nil
			}
			rest = append(rest, []any{sep, item})
			n += n1 + n2
		}
		return true, n, []any{first, rest}
	case vxgAdjoin:
		ok, n1, r1 := r.match(g.a, at)
		if !ok || n1 == 0 {
			return false, 0, nil
		}
		ok, n2, r2 := r.match(g.b, at+n1)
		if !ok || n2 == 0 {
			return false, 0, nil
		}
		if r.toks[at+n1-1].End() != r.toks[at+n1].Pos {
			return false, 0, nil
		}
		return true, n1 + n2, []any{r1, r2}
	}
	return false, 0, nil
}

func vxSameTree(a, b any) bool {
	switch x := a.(type) {
	case nil:
		return b == nil
	case *Token:
		y, ok := b.(*Token)
		return ok && x == y
	case []any:
		y, ok := b.([]any)
		if !ok || len(x) != len(y) {
			return false
		}
		for i := range x {
			if !vxSameTree(x[i], y[i]) {
				return false
			}
		}
		return true
	}
	return false
}
