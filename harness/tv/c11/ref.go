package main

// C11: a normal .gox class file behaves like its explicit struct form.
// Subject: the Go code the real XGo compiler emitted for cls/Counter.gox + cls/main.xgo.
// Reference: the explicit struct with pointer-receiver methods below.

// Static part of the claim, decided when this generated package is type-checked (load time):
// the class compiles to a struct with EXACTLY the declared fields, in order (an unkeyed
// composite literal needs every field) and to methods with receiver *Counter.
var _ = Counter{0, "", []int(nil), map[int]bool(nil)}
var _ interface {
	Add(int) int
	Get() int
	Rename(string) string
	Hist(int) int
	Seen(int) bool
	AddTwice(int) (int, int)
} = (*Counter)(nil)

var _ = Gauge{0, "", unit(""), [2]int{}, (*Gauge)(nil)}
var _ interface {
	Set(int)
	Level() int
	Title(string, string) string
	Link(*Gauge) int
} = (*Gauge)(nil)

const rGaugeMax = 100

type RGauge struct {
	level int
	name  string
	u     unit
	marks [2]int
	peer  *RGauge
}

func (this *RGauge) Set(v int) {
	if v > rGaugeMax {
		v = rGaugeMax
	}
	this.marks[0], this.marks[1] = this.level, v
	this.level = v
}
func (this *RGauge) Level() int { return this.level }
func (this *RGauge) Title(n string, unitName string) string {
	this.name = vxUpper(n)
	this.u = unit(unitName)
	return this.name + " " + string(this.u)
}
func (this *RGauge) Link(other *RGauge) int {
	this.peer = other
	if this.peer == nil {
		return this.level
	}
	return this.level + this.peer.level + this.peer.marks[1]
}

func vxUpper(s string) string {
	b := []byte(s)
	for i, c := range b {
		if 'a' <= c && c <= 'z' {
			b[i] = c - 32
		}
	}
	return string(b)
}

func RUseGauges(a, b int) int {
	g1, g2 := &RGauge{}, &RGauge{}
	g1.Set(a)
	g2.Set(b)
	g1.Set(a + 1)
	return g1.Level()*1000 + g2.Level()*10 + g1.Link(g2) + g2.Link(nil) + g1.marks[0]
}

func RUseTitle(n, un string) string {
	g := new(RGauge)
	h := new(RGauge)
	t := g.Title(n, un)
	return t + "/" + h.name + "/" + string(g.u)
}

var _ = Stats{0, 0, 0, ""}

type RStats struct {
	min, max int
	len      int
	cap      string
}

func (this *RStats) Add(v int) {
	if this.len == 0 || v < this.min {
		this.min = v
	}
	if this.len == 0 || v > this.max {
		this.max = v
	}
	this.len++
}
func (this *RStats) Span() int  { return this.max - this.min }
func (this *RStats) Count() int { return this.len }
func (this *RStats) print(msg string) string {
	this.cap = msg
	return msg + "!"
}
func (this *RStats) Show(msg string) string { return this.print(msg) + this.cap }

func RUseStats(a, b, c int) int {
	s := &RStats{}
	s.Add(a)
	s.Add(b)
	s.Add(c)
	return s.Span()*100 + s.Count()
}

func RUseShow(m string) string {
	s := new(RStats)
	t := new(RStats)
	return s.Show(m) + "|" + t.cap
}

type RCounter struct {
	n     int
	label string
	hist  []int
	seen  map[int]bool
}

func (this *RCounter) Add(d int) int {
	this.n += d
	this.hist = append(this.hist, this.n)
	if this.seen == nil {
		this.seen = map[int]bool{d: true}
	} else {
		this.seen[d] = true
	}
	return this.n
}
func (this *RCounter) Get() int { return this.n }
func (this *RCounter) Rename(s string) string {
	old := this.label
	this.label = s + ":" + this.label
	return old
}
func (this *RCounter) Hist(i int) int {
	if i < 0 || i >= len(this.hist) {
		return -1
	}
	return this.hist[i]
}
func (this *RCounter) Seen(d int) bool { return this.seen[d] }
func (this *RCounter) AddTwice(d int) (first, second int) {
	first = this.Add(d)
	second = this.Add(d)
	return
}

func RUseCounter(a, b, q int) int {
	c := &RCounter{}
	c.Add(a)
	x, y := c.AddTwice(b)
	r := c.Get()*1000 + x*10 + y + c.Hist(q)
	if c.Seen(q) {
		r++
	}
	return r
}

func RUseLabel(s, t string) string {
	c := new(RCounter)
	o1 := c.Rename(s)
	o2 := c.Rename(t)
	return o1 + "|" + o2 + "|" + c.label
}

func RTwoCounters(a, b int) int {
	c1, c2 := &RCounter{}, &RCounter{}
	c1.Add(a)
	c2.Add(b)
	c1.Add(b)
	return c1.Get()*100 + c2.Get()
}

func VxC11() {
	a := vxIntRange(-20, 20)
	b := vxIntRange(-20, 20)
	q := vxIntRange(-2, 4)
	switch vxParam("FN") {
	case 0:
		vxAssert(UseCounter(a, b, q) == RUseCounter(a, b, q), "class file program differs from its explicit struct form")
	case 1:
		s := vxString(vxIntRange(0, 2))
		t := vxString(vxIntRange(0, 2))
		vxAssert(UseLabel(s, t) == RUseLabel(s, t), "class file program (string fields) differs from its explicit struct form")
	case 2:
		vxAssert(TwoCounters(a, b) == RTwoCounters(a, b), "two instances of a class share state or differ from the explicit struct form")
	case 4:
		a2 := vxIntRange(80, 120)
		vxAssert(UseGauges(a2, b) == RUseGauges(a2, b), "class file with const/type declarations before its var block differs from its explicit struct form (two instances)")
	case 5:
		n := vxString(vxConcrete(vxIntRange(0, 2)))
		for i := 0; i < len(n); i++ {
			vxAssume(n[i] < 0x80)
		}
		un := vxString(vxConcrete(vxIntRange(0, 1)))
		vxAssert(UseTitle(n, un) == RUseTitle(n, un), "class file (string and named-type fields) differs from its explicit struct form")
	case 6:
		c3 := vxIntRange(-20, 20)
		vxAssert(UseStats(a, b, c3) == RUseStats(a, b, c3), "a class whose fields are named like predeclared identifiers (min, max, len) differs from its explicit struct form")
		m := vxString(vxConcrete(vxIntRange(0, 2)))
		vxAssert(UseShow(m) == RUseShow(m), "a class method named like a builtin (print), called bare, differs from its explicit struct form")
	case 3:
		// method-level comparison from an arbitrary field state
		c := &Counter{n: a, label: "x", hist: []int{b}, seen: map[int]bool{q: true}}
		r := &RCounter{n: a, label: "x", hist: []int{b}, seen: map[int]bool{q: true}}
		d := vxIntRange(-5, 5)
		vxAssert(c.Add(d) == r.Add(d), "Add differs")
		vxAssert(c.n == r.n && len(c.hist) == len(r.hist) && c.hist[1] == r.hist[1], "Add leaves different field values")
		vxAssert(c.Seen(d) == r.Seen(d) && c.Seen(q) == r.Seen(q) && c.Hist(q) == r.Hist(q), "field-reading methods differ")
	}
}
