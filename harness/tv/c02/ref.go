package main

// C02: XGo collection sugar evaluates like its documented Go expansion.
// Subject: the Go code the real XGo compiler emitted for coll.xgo. Reference: the explicit
// loops / calls below (written from doc/docs.md; for comprehensions with several for-phrases
// the LAST phrase is the outermost loop). Element and filter evaluations are recorded in
// `trace` by the instrumented f / cond, so values, order and side effects are compared.

func vxSlice(n int) []int {
	xs := make([]int, n)
	for i := range xs {
		xs[i] = vxIntRange(-9, 9)
	}
	return xs
}

func vxSameSlice(got, want []int, what string) {
	vxAssert(len(got) == len(want), what+": result length differs from the documented expansion")
	for i := range want {
		if i < len(got) {
			vxAssert(got[i] == want[i], what+": result element differs from the documented expansion")
		}
	}
}

func vxTake() []int {
	t := trace
	trace = nil
	return t
}

func VxC02() {
	L := vxParam("L")
	xs := vxSlice(vxConcrete(vxIntRange(0, L)))
	ys := vxSlice(vxConcrete(vxIntRange(0, L)))
	k := vxIntRange(-9, 9)
	a, b, c := vxIntRange(-50, 50), vxIntRange(-50, 50), vxIntRange(-50, 50)
	trace = nil
	switch vxParam("FN") {
	case 0:
		vxSameSlice(SliceLit(a, b, c), []int{a, b + 1, c * 2}, "[a, b+1, c*2]")
	case 1:
		m := MapLit(a, b)
		vxAssert(len(m) == 2 && m["a"] == a && m["b"] == b+1, "{\"a\": a, \"b\": b+1} differs from the map literal")
	case 2:
		vxSameSlice(AppendOne(append([]int(nil), xs...), k), append(append([]int(nil), xs...), k), "xs <- v")
	case 3:
		vxSameSlice(AppendTwo(append([]int(nil), xs...), a, b), append(append([]int(nil), xs...), a, b), "xs <- v, w")
	case 4:
		vxSameSlice(AppendSpread(append([]int(nil), xs...), ys), append(append([]int(nil), xs...), ys...), "xs <- ys...")
	case 5:
		got := ForIn(xs)
		gt := vxTake()
		var want []int
		for _, x := range xs {
			want = append(want, f(1, x))
		}
		vxSameSlice(got, want, "for x in xs")
		vxSameSlice(gt, vxTake(), "for x in xs (evaluation trace)")
	case 6:
		var want []int
		for i, x := range xs {
			want = append(want, i*100+x)
		}
		vxSameSlice(ForInIdx(xs), want, "for i, x in xs")
	case 7:
		got := ForInIf(xs)
		gt := vxTake()
		var want []int
		for _, x := range xs {
			if cond(1, x) {
				want = append(want, f(2, x))
			}
		}
		vxSameSlice(got, want, "for x in xs if cond")
		vxSameSlice(gt, vxTake(), "for x in xs if cond (evaluation trace)")
	case 8:
		got := ListCompr(xs)
		gt := vxTake()
		var want []int
		for _, x := range xs {
			want = append(want, f(1, x))
		}
		vxSameSlice(got, want, "[f(x) for x in xs]")
		vxSameSlice(gt, vxTake(), "[f(x) for x in xs] (evaluation trace)")
	case 9:
		got := ListComprIf(xs)
		gt := vxTake()
		var want []int
		for _, x := range xs {
			if cond(1, x) {
				want = append(want, f(2, x))
			}
		}
		vxSameSlice(got, want, "[f(x) for x in xs if cond]")
		vxSameSlice(gt, vxTake(), "[f(x) for x in xs if cond] (evaluation trace)")
	case 10:
		var want []int
		for _, y := range ys { // the last for-phrase is the outermost loop
			for _, x := range xs {
				want = append(want, x*10+y)
			}
		}
		vxSameSlice(ListCompr2(xs, ys), want, "[e for x in xs for y in ys]")
	case 11:
		got := MapCompr(xs)
		gt := vxTake()
		want := map[int]int{}
		for _, x := range xs {
			want[x] = f(1, x)
		}
		vxAssert(len(got) == len(want), "{x: f(x) for x in xs}: number of keys differs")
		for _, x := range xs {
			v, ok := got[x]
			vxAssert(ok && v == want[x], "{x: f(x) for x in xs}: key missing or wrong value")
		}
		vxSameSlice(gt, vxTake(), "{x: f(x) for x in xs} (evaluation trace)")
	case 12:
		got := MapComprIdx(xs)
		vxAssert(len(got) == len(xs), "{i: x for i, x in xs}: number of keys differs")
		for i, x := range xs {
			v, ok := got[i]
			vxAssert(ok && v == x, "{i: x for i, x in xs}: key missing or wrong value")
		}
	case 13:
		want := false
		for _, x := range xs {
			if x == k {
				want = true
				break
			}
		}
		vxAssert(Exists(xs, k) == want, "{for x in xs if cond} differs from the existence loop")
	case 14:
		wv, wok := 0, false
		for _, x := range xs {
			if x > k {
				wv, wok = x*3, true
				break
			}
		}
		gv, gok := Select(xs, k)
		vxAssert(gv == wv && gok == wok, "v, ok := {e for x in xs if cond} differs from the selection loop")
		vxAssert(Select1(xs, k) == wv, "{e for x in xs if cond} differs from the selection loop")
	case 17:
		zs := vxSlice(vxConcrete(vxIntRange(0, L)))
		var want []int
		for _, z := range zs { // the last for-phrase is the outermost loop, the first the innermost
			for _, y := range ys {
				for _, x := range xs {
					want = append(want, x*100+y*10+z)
				}
			}
		}
		vxSameSlice(ListCompr3(xs, ys, zs), want, "[e for x in xs for y in ys for z in zs]")
	case 18:
		rows := [][]int{xs, ys}
		got := ListComprDep(rows)
		gt := vxTake()
		var want []int
		for _, row := range rows {
			for _, x := range row {
				want = append(want, f(3, x))
			}
		}
		vxSameSlice(got, want, "[f(x) for x in row for row in rows]")
		vxSameSlice(gt, vxTake(), "[f(x) for x in row for row in rows] (evaluation trace)")
	case 19:
		zs := vxSlice(vxConcrete(vxIntRange(0, L)))
		got := Exists3(xs, ys, zs)
		gt := vxTake()
		want := false
	outer:
		for _, z := range zs {
			for _, y := range ys {
				for _, x := range xs {
					if cond(4, x*100+y*10+z) {
						want = true
						break outer
					}
				}
			}
		}
		vxAssert(got == want, "{for x in xs if cond for y in ys for z in zs} differs from the nested existence loops")
		vxSameSlice(gt, vxTake(), "{for x in xs if cond for y in ys for z in zs} (evaluation trace)")
	case 20:
		{
			n := 0
			var want []int
			for _, x := range xs {
				if n++; n%2 == 0 {
					want = append(want, x)
				}
			}
			vxSameSlice(ComprInitInc(xs), want, "[x for x in xs if n++; cond]")
		}
		{
			got := ComprInitCall(xs)
			gt := vxTake()
			var want []int
			for _, x := range xs {
				if f(9, x); cond(1, x) {
					want = append(want, x+1)
				}
			}
			vxSameSlice(got, want, "[e for x in xs if f(x); cond]")
			vxSameSlice(gt, vxTake(), "[e for x in xs if f(x); cond] (evaluation trace: the init statement runs before every test)")
		}
		{
			n := 0
			wv, wok := 0, false
			for _, x := range xs {
				if n += x; n > 3 {
					wv, wok = x*2, true
					break
				}
			}
			gv, gok := SelectInitInc(xs)
			vxAssert(gv == wv+n*100 && gok == wok, "v, ok := {e for x in xs if n += x; cond} differs from the selection loop")
		}
	case 15:
		vxAssert(CommandCall(a, b) == a*7+b+1, "command-style call differs from the ordinary call")
	case 16:
		vxAssert(CommandLambda(a, k) == a*k+1, "trailing lambda argument differs from the function literal")
	}
}
