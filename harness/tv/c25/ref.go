package main

// C25 harness: every function of style.gostyle exists twice in this package - X_f (converted to XGo style by
// the real x/format.GopstyleSource, then compiled by the real compiler) and R_f (the original Go text).
// Both run on the same symbolic arguments; results and standard output must agree.

func vxSlice3() []int {
	n := vxConcrete(vxIntRange(0, 3))
	xs := make([]int, n)
	for i := range xs {
		xs[i] = vxIntRange(-9, 9)
	}
	return xs
}

func VxC25() {
	a := vxIntRange(-50, 50)
	b := vxIntRange(-50, 50)
	s := vxString(vxConcrete(vxIntRange(0, 2)))
	for i := 0; i < len(s); i++ {
		vxAssume(s[i] >= ' ' && s[i] < 0x7f)
	}
	switch vxParam("FN") {
	case 0:
		vxStdoutBegin()
		X_Print(a, s)
		got := vxStdoutEnd()
		vxStdoutBegin()
		R_Print(a, s)
		want := vxStdoutEnd()
		vxAssert(got == want, "fmt.Println/Printf/Print converted to echo/printf/print write something else to standard output")
	case 1:
		vxAssert(X_Sprint(a, s) == R_Sprint(a, s), "fmt.Sprint/Sprintf/Sprintln converted to builtins yield a different string")
	case 2:
		vxAssert(X_Errorf(a) == R_Errorf(a), "fmt.Errorf / errors.New converted yield a different error text")
	case 3:
		vxAssert(X_Fprint(a, s) == R_Fprint(a, s), "fmt.Fprint* converted to builtins write something else")
	case 4:
		vxAssert(X_PkgFunc(s) == R_PkgFunc(s), "package functions called in lower-case style yield a different result")
	case 5:
		vxAssert(X_Method(a) == R_Method(a), "a method called in lower-case style yields a different result")
	case 6:
		vxAssert(X_Lambda(a, b) == R_Lambda(a, b), "function literal converted to a lambda expression behaves differently")
		vxAssert(X_Lambda2(a, b) == R_Lambda2(a, b), "two-parameter/two-result function literal converted to a lambda behaves differently")
		vxAssert(X_LambdaNamed(a) == R_LambdaNamed(a), "function literal with a named result behaves differently after conversion")
		vxAssert(X_LambdaUnused(a) == R_LambdaUnused(a), "function literal with an unnamed parameter behaves differently after conversion")
	case 7:
		xs := vxSlice3()
		ys := append([]int(nil), xs...)
		vxAssert(X_LambdaBlock(xs) == R_LambdaBlock(ys), "function literal with a statement body converted to a block lambda behaves differently")
	case 8:
		vxAssert(X_ShadowFmt(a) == R_ShadowFmt(a), "a local variable named fmt is mistaken for the fmt package")
		vxAssert(X_ShadowFmtInner(a) == R_ShadowFmtInner(a), "a block-local variable named fmt is mistaken for the fmt package (or hides it too long)")
		vxAssert(X_ShadowParam(X_fmtLike{}, a) == R_ShadowParam(R_fmtLike{}, a), "a parameter named fmt is mistaken for the fmt package")
	case 9:
		vxStdoutBegin()
		X_ShadowPrintf(a)
		X_ShadowEcho(a)
		got := vxStdoutEnd()
		vxStdoutBegin()
		R_ShadowPrintf(a)
		R_ShadowEcho(a)
		want := vxStdoutEnd()
		vxAssert(got == want, "fmt.Printf/Println next to local variables named printf/echo print something else")
		vxAssert(X_ShadowErrorf(a) == R_ShadowErrorf(a), "fmt.Errorf next to a local variable named errorf behaves differently")
		vxAssert(X_ShadowSprint(a) == R_ShadowSprint(a), "fmt.Sprint next to a local function named sprint behaves differently")
	case 11:
		vxAssert(X_LambdaBareReturn(a) == R_LambdaBareReturn(a), "a function literal consisting of a bare return behaves differently after conversion")
		vxAssert(X_LambdaVariadic(a) == R_LambdaVariadic(a), "a variadic function literal behaves differently after conversion")
		n := vxIntRange(0, 12)
		vxAssert(X_ForPost(n) == R_ForPost(n), "an fmt call in the post statement of a for loop behaves differently after conversion")
	case 10:
		vxStdoutBegin()
		main()
		got := vxStdoutEnd()
		vxStdoutBegin()
		R_main()
		want := vxStdoutEnd()
		vxAssert(got == want, "the converted main program prints something else")
	}
}
