package main

// C03: error-wrapping operators !, ? and ?: behave as documented.
// Subject: the Go code the real XGo compiler emitted for errwrap.xgo. The callees are
// instrumented (calls records every evaluation), values and failure flags are symbolic.

import "errors"

func vxCalls(want ...int) {
	vxAssert(len(calls) == len(want), "the wrapped call (or the default) is not evaluated exactly the documented number of times")
	for i := range want {
		if i < len(calls) {
			vxAssert(calls[i] == want[i], "evaluation order differs from the documented one")
		}
	}
}

// vxPanics runs f and returns the error it panicked with (nil if it returned normally).
func vxPanics(f func()) (perr error, panicked bool) {
	defer func() {
		if p := recover(); p != nil {
			panicked = true
			if e, ok := p.(error); ok {
				perr = e
			}
		}
	}()
	f()
	return
}

func VxC03() {
	v := vxIntRange(-100, 100)
	w := vxIntRange(-100, 100)
	d := vxIntRange(-100, 100)
	fail := vxBool()
	fail2 := vxBool()
	calls = nil
	switch vxParam("FN") {
	case 0:
		var got int
		perr, panicked := vxPanics(func() { got = BangAssign(v, fail) })
		if fail {
			vxAssert(panicked && perr != nil && errors.Is(perr, errBoom), "expr! must panic with the callee's error")
		} else {
			vxAssert(!panicked && got == v+1, "expr! must yield the value when the error is nil")
		}
		vxCalls(1)
	case 1:
		var got int
		perr, panicked := vxPanics(func() { got = BangTwo(v, w, fail) })
		if fail {
			vxAssert(panicked && perr != nil && errors.Is(perr, errBoom), "expr! must panic with the callee's error")
		} else {
			vxAssert(!panicked && got == v-w, "expr! must yield both values when the error is nil")
		}
		vxCalls(1)
	case 2:
		var got int
		perr, panicked := vxPanics(func() { got = BangStmt(fail) })
		if fail {
			vxAssert(panicked && perr != nil && errors.Is(perr, errBoom), "expr! as a statement must panic with the callee's error")
		} else {
			vxAssert(!panicked && got == 7, "expr! as a statement must continue when the error is nil")
		}
		vxCalls(1)
	case 3:
		var got int
		perr, panicked := vxPanics(func() { got = BangArg(v, fail) })
		if fail {
			vxAssert(panicked && perr != nil && errors.Is(perr, errBoom), "expr! as an argument must panic with the callee's error")
			vxCalls(1) // the outer call never happens
		} else {
			vxAssert(!panicked && got == v, "expr! as an argument must pass the value on")
			vxCalls(1, 2)
		}
	case 4:
		got, err := QuestAssign(v, fail)
		if fail {
			vxAssert(err != nil && errors.Is(err, errBoom) && got == 0, "expr? must return the error with zero values for the other results")
		} else {
			vxAssert(err == nil && got == v+1, "expr? must yield the value when the error is nil")
		}
		vxCalls(1)
	case 5:
		got, s, err := QuestTwoResults(v, fail)
		if fail {
			vxAssert(err != nil && errors.Is(err, errBoom) && got == 0 && s == "", "expr? must return the error with zero values for all other results")
		} else {
			vxAssert(err == nil && got == v && s == "ok", "expr? must yield the value when the error is nil")
		}
		vxCalls(1)
	case 6:
		err := QuestStmt(fail)
		if fail {
			vxAssert(err != nil && errors.Is(err, errBoom), "expr? as a statement must return the error")
			vxCalls(1)
		} else {
			vxAssert(err == nil, "expr? as a statement must continue when the error is nil")
			vxCalls(1, 9)
		}
	case 7:
		got, err := QuestNested(v, fail, fail2)
		switch {
		case fail:
			vxAssert(err != nil && errors.Is(err, errBoom) && got == 0, "first expr? must return its error")
			vxCalls(1)
		case fail2:
			vxAssert(err != nil && errors.Is(err, errBoom) && got == 0, "second expr? must return its error")
			vxCalls(1, 2)
		default:
			vxAssert(err == nil && got == v+v, "both expr? must yield their values")
			vxCalls(1, 2)
		}
	case 8:
		got := DefaultConst(v, fail)
		if fail {
			vxAssert(got == 42, "expr?:d must yield d when the error is non-nil")
		} else {
			vxAssert(got == v, "expr?:d must yield the value when the error is nil")
		}
		vxCalls(1)
	case 9:
		got := DefaultCall(v, d, fail)
		if fail {
			vxAssert(got == d, "expr?:d must yield d when the error is non-nil")
			vxCalls(1, 2)
		} else {
			vxAssert(got == v, "expr?:d must yield the value when the error is nil")
			vxCalls(1) // d is evaluated only on the error path
		}
	case 11:
		var got int
		perr, panicked := vxPanics(func() { got = BangThree(v, w, fail) })
		if fail {
			vxAssert(panicked && perr != nil && errors.Is(perr, errBoom), "expr! with three values must panic with the callee's error")
		} else {
			want := v - 1
			if w > 0 {
				want = v + 1
			}
			vxAssert(!panicked && got == want, "expr! must yield all three values in order when the error is nil")
		}
		vxCalls(1)
	case 12:
		var got int
		var gerr error
		perr, panicked := vxPanics(func() { got, gerr = QuestTwo(v, w, fail) })
		if fail {
			vxAssert(panicked && perr != nil && errors.Is(perr, errBoom), "expr! before expr? must panic with the callee's error")
			vxCalls(1)
		} else {
			vxAssert(!panicked && gerr == nil && got == v-w, "expr! then expr? must yield the values when the errors are nil")
			vxCalls(1, 2)
		}
	case 13:
		{
			var got int
			perr, panicked := vxPanics(func() { got = BangCmd(fail) })
			if fail {
				vxAssert(panicked && perr != nil && errors.Is(perr, errBoom), "f! args (command style) must panic with the callee's error")
			} else {
				vxAssert(!panicked && got == 7, "f! args (command style) must continue when the error is nil")
			}
			vxCalls(1)
		}
		calls = nil
		{
			var gerr error
			_, panicked := vxPanics(func() { gerr = QuestCmd(fail) })
			vxAssert(!panicked, "f? args (command style) must not panic")
			if fail {
				vxAssert(gerr != nil && errors.Is(gerr, errBoom), "f? args (command style) must return the callee's error")
				vxCalls(1)
			} else {
				vxAssert(gerr == nil, "f? args (command style) must continue when the error is nil")
				vxCalls(1, 9)
			}
		}
		calls = nil
		{
			var gv int
			var gs string
			var gerr error
			_, panicked := vxPanics(func() { gv, gs, gerr = QuestCmdTwo(v, fail) })
			vxAssert(!panicked, "f? args (command style) must not panic")
			if fail {
				vxAssert(gv == 0 && gs == "" && gerr != nil && errors.Is(gerr, errBoom), "f? args must return zero values and the callee's error")
			} else {
				vxAssert(gv == v && gs == "ok" && gerr == nil, "f? args must continue when the error is nil")
			}
		}
	case 10:
		got := DefaultArg(v, d, fail)
		if fail {
			vxAssert(got == d, "expr?:d as an argument must pass d on")
		} else {
			vxAssert(got == v, "expr?:d as an argument must pass the value on")
		}
		vxCalls(1, 3)
	}
}
