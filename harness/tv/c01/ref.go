package main

// C01: a valid Go program means the same thing when compiled as XGo.
// prog.gotmpl is instantiated twice by the check: compiled by the XGo compiler of the
// current tree (X_ names, file xgo_prog.go) and taken as plain Go (R_ names, ref_prog.go).
// Each pair of functions runs on the same symbolic arguments; results, panics and the
// instrumented traces must agree.

func vxRun2(fx, fr func() int) {
	var xv, rv int
	var xp, rp any
	func() {
		defer func() { xp = recover() }()
		xv = fx()
	}()
	func() {
		defer func() { rp = recover() }()
		rv = fr()
	}()
	vxAssert((xp == nil) == (rp == nil), "compiled as XGo the program panics where the Go build does not (or vice versa)")
	if xp == nil && rp == nil {
		vxAssert(xv == rv, "compiled as XGo the program computes a different result than the Go build")
	}
}

func vxSameTrace() {
	vxAssert(len(X_trace) == len(R_trace), "compiled as XGo the program has different side effects (trace length)")
	for i := range R_trace {
		if i < len(X_trace) {
			vxAssert(X_trace[i] == R_trace[i], "compiled as XGo the program has different side effects (trace order)")
		}
	}
}

func VxC01() {
	a := vxIntRange(-40, 40)
	b := vxIntRange(-40, 40)
	c := vxIntRange(-40, 40)
	n := vxIntRange(0, 4)
	X_trace, R_trace = nil, nil
	switch vxParam("FN") {
	case 0:
		vxRun2(func() int { return X_Arith(a, b) }, func() int { return R_Arith(a, b) })
	case 1:
		s := vxString(vxIntRange(0, 2))
		xs, rs := X_Strings(n, s), R_Strings(n, s)
		vxAssert(xs == rs, "string program differs when compiled as XGo")
	case 2:
		vxRun2(func() int { return X_SliceOps(a, b, c) }, func() int { return R_SliceOps(a, b, c) })
	case 3:
		vxRun2(func() int { return X_MapOps(a, b) }, func() int { return R_MapOps(a, b) })
	case 4:
		vxRun2(func() int { return X_Methods(a, b, c) }, func() int { return R_Methods(a, b, c) })
	case 5:
		vxRun2(func() int { return X_Closures(a, n) }, func() int { return R_Closures(a, n) })
	case 6:
		vxRun2(func() int { return X_DeferOrder(a) }, func() int { return R_DeferOrder(a) })
		vxSameTrace()
	case 7:
		i := vxIntRange(-1, 4)
		xr, xm := X_Recover(i, b)
		rr, rm := R_Recover(i, b)
		vxAssert(xr == rr && xm == rm, "defer/recover program differs when compiled as XGo")
	case 8:
		vxRun2(func() int { return X_Switch(a) }, func() int { return R_Switch(a) })
	case 9:
		m := vxIntRange(0, 4)
		vxRun2(func() int { return X_Labels(n+1, m) }, func() int { return R_Labels(n+1, m) })
	case 10:
		vxRun2(func() int { return X_Goto(n) }, func() int { return R_Goto(n) })
	case 11:
		vxRun2(func() int { return X_MultiAssign(a, b) }, func() int { return R_MultiAssign(a, b) })
	case 12:
		vxRun2(func() int { return X_Shadow(a) }, func() int { return R_Shadow(a) })
	case 13:
		vxRun2(func() int { return X_Variadics(a, b) }, func() int { return R_Variadics(a, b) })
	case 14:
		x1, y1 := X_NamedResult(a)
		x2, y2 := R_NamedResult(a)
		vxAssert(x1 == x2 && y1 == y2, "named results modified by defer differ when compiled as XGo")
	case 15:
		vxRun2(func() int { return X_Interfaces(a, b) }, func() int { return R_Interfaces(a, b) })
	case 16:
		vxRun2(func() int { return X_Switch2(a) }, func() int { return R_Switch2(a) })
	case 17:
		s := vxString(vxConcrete(vxIntRange(0, 2)))
		vxRun2(func() int { return X_Loops(n+2, s) }, func() int { return R_Loops(n+2, s) })
	case 18:
		vxRun2(func() int { return X_IfChain(a, b) }, func() int { return R_IfChain(a, b) })
	case 19:
		vxRun2(func() int { return X_Structs(a, b) }, func() int { return R_Structs(a, b) })
	case 20:
		vxRun2(func() int { return X_Consts(a) }, func() int { return R_Consts(a) })
	case 21:
		if vxParam("KF_INITORDER") == 1 {
			vxReach("init-order")
			return // open known finding C01-package-var-init-order
		}
		vxAssert(X_InitOrder() == R_InitOrder(), "package-level variables are initialised in a different order when compiled as XGo")
	}
}
