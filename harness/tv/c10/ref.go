package main

// C10 harness: every call must reach the candidate whose parameter types accept the arguments,
// whatever the order of the candidate list and the declaration style.

func vxFlag(b bool) int {
	if b {
		return 1
	}
	return 0
}

var vxOne = []func(int, string, bool) (int, int, int, int, int){
	CallLit_isb,
	CallLit_ibs,
	CallLit_sib,
	CallLit_sbi,
	CallLit_bis,
	CallLit_bsi,
	CallId_isb,
	CallId_ibs,
	CallId_sib,
	CallId_sbi,
	CallId_bis,
	CallId_bsi,
}

var vxOneNames = []string{"CallLit_isb", "CallLit_ibs", "CallLit_sib", "CallLit_sbi", "CallLit_bis", "CallLit_bsi", "CallId_isb", "CallId_ibs", "CallId_sib", "CallId_sbi", "CallId_bis", "CallId_bsi"}

var vxTwo = []func(int, int, string, string) (int, int, int, int){
	CallTwo_ABCD,
	CallTwo_ACDB,
	CallTwo_BACD,
	CallTwo_BCDA,
	CallTwo_CABD,
	CallTwo_CBDA,
	CallTwo_DABC,
	CallTwo_DBCA,
}

var vxMeth = []func(int, int, int, string) (int, int, int){
	CallM_isf,
	CallM_ifs,
	CallM_sif,
	CallM_sfi,
	CallM_fis,
	CallM_fsi,
}

var vxOps = []func(int, int, int) (int, int, int){
	CallOp_ifx,
	CallOp_ixf,
	CallOp_fix,
	CallOp_fxi,
	CallOp_xif,
	CallOp_xfi,
}

func VxC10() {
	i := vxIntRange(-9, 9)
	j := vxIntRange(-9, 9)
	v := vxIntRange(0, 9)
	w := vxIntRange(0, 9)
	s := vxString(vxConcrete(vxIntRange(0, 2)))
	t := vxString(vxConcrete(vxIntRange(0, 2)))
	b := vxBool()
	switch vxParam("FAM") {
	case 0: // one parameter: literal and named-function style, all six orders each
		for k, f := range vxOne {
			r1, r2, r3, r4, r5 := f(i, s, b)
			vxNote("set", vxOneNames[k])
			vxAssert(r1 == 1000+i, "a call with an int argument did not reach the int candidate")
			vxAssert(r2 == 2000+len(s), "a call with a string argument did not reach the string candidate")
			vxAssert(r3 == 3000+vxFlag(b), "a call with a bool argument did not reach the bool candidate")
			vxAssert(r4 == 1007, "a call with an untyped integer constant did not reach the int candidate")
			vxAssert(r5 == 2002, "a call with an untyped string constant did not reach the string candidate")
		}
	case 1: // two parameters, four candidates
		for _, f := range vxTwo {
			r1, r2, r3, r4 := f(i, j, s, t)
			vxAssert(r1 == 4000+i*10+j, "(int, int) call did not reach the (int, int) candidate")
			vxAssert(r2 == 5000+i*10+len(s), "(int, string) call did not reach the (int, string) candidate")
			vxAssert(r3 == 6000+len(s)*10+i, "(string, int) call did not reach the (string, int) candidate")
			vxAssert(r4 == 7000+len(s)*10+len(t), "(string, string) call did not reach the (string, string) candidate")
		}
	case 2: // methods
		for _, f := range vxMeth {
			r1, r2, r3 := f(v, w, i, s)
			vxAssert(r1 == 1000+v*100+i, "method call with an int argument did not reach the int candidate")
			vxAssert(r2 == 2000+v*100+len(s), "method call with a string argument did not reach the string candidate")
			vxAssert(r3 == 3000+v*100+w, "method call with a *foo argument did not reach the *foo candidate")
		}
	case 4: // type, method and function names containing '_'
		r1, r2, r3, r4, r5, r6, r7, r8 := CallUnderscore(v, i, s)
		vxAssert(r1 == 1000+v*100+i && r2 == 2000+v*100+len(s), "method overload on a type whose name contains '_' does not dispatch on the argument type")
		vxAssert(r3 == 1000+v*100+i && r4 == 2000+v*100+len(s), "method overload whose name contains '_' (type name too) does not dispatch on the argument type")
		vxAssert(r5 == 1000+v*100+i && r6 == 2000+v*100+len(s), "method overload whose name contains '_' does not dispatch on the argument type")
		vxAssert(r7 == 1000+i && r8 == 2000+len(s), "function overload whose name contains '_' does not dispatch on the argument type")
	case 3: // operators
		for _, f := range vxOps {
			r1, r2, r3 := f(v, w, i)
			vxAssert(r1 == 1000+v*10+i, "num * int did not reach the (num, int) candidate")
			vxAssert(r2 == 2000+v*10+w, "num * num did not reach the (num, num) candidate")
			vxAssert(r3 == 3000+i*10+v, "int * num did not reach the (int, num) candidate")
		}
	}
}
