package main

// C04: a range expression denotes the same integer sequence in every context.
// Subject: the Go code the real XGo compiler emitted for range.xgo (xgo_range.go in this
// generated package). Reference: the documented meaning of start:end:step.

// vxRefRange: start, start+step, ... while before end in the direction of step;
// omitted start is 0, omitted step is 1.
func vxRefRange(a, b, s int) (r []int) {
	if s > 0 {
		for i := a; i < b; i += s {
			r = append(r, i)
		}
	} else if s < 0 {
		for i := a; i > b; i += s {
			r = append(r, i)
		}
	}
	return
}

func vxSameInts(got, want []int, what string) {
	vxAssert(len(got) == len(want), what+": sequence length differs from the documented range")
	for i := range want {
		if i < len(got) {
			vxAssert(got[i] == want[i], what+": element differs from the documented range")
		}
	}
}

func vxEven(l []int) (r []int) {
	for _, x := range l {
		if x%2 == 0 {
			r = append(r, x)
		}
	}
	return
}

// VxC04: parameter FN selects the context, NEG the sign of the step.
func VxC04() {
	R := vxParam("R")
	S := vxParam("S")
	a := vxIntRange(-R, R)
	b := vxIntRange(-R, R)
	var s int
	if vxParam("NEG") == 1 {
		s = vxIntRange(-S, -1)
	} else {
		s = vxIntRange(1, S)
	}
	vxNote("a", a)
	vxNote("b", b)
	vxNote("s", s)
	want := vxRefRange(a, b, s)
	if vxParam("NEG") == 1 && vxParam("KF_NEGSTEP") == 1 {
		switch vxParam("FN") {
		case 0, 1, 7, 9, 10, 12:
			// open known finding: statement contexts with a negative step that is not a literal
			return
		}
	}
	switch vxParam("FN") {
	case 0:
		vxSameInts(ForIn3(a, b, s), want, "for i in a:b:s")
	case 1:
		vxSameInts(ForRange3(a, b, s), want, "for i := range a:b:s")
	case 2:
		vxSameInts(Compr3(a, b, s), want, "[i for i in a:b:s]")
	case 3:
		vxSameInts(ForIn2(a, b), vxRefRange(a, b, 1), "for i in a:b")
	case 4:
		vxSameInts(Compr2(a, b), vxRefRange(a, b, 1), "[i for i in a:b]")
	case 5:
		vxSameInts(ForIn1(b), vxRefRange(0, b, 1), "for i in :b")
	case 6:
		vxSameInts(Compr1(b), vxRefRange(0, b, 1), "[i for i in :b]")
	case 7:
		vxSameInts(ForInNoStart3(b, s), vxRefRange(0, b, s), "for i in :b:s")
	case 8:
		vxSameInts(ComprNoStart3(b, s), vxRefRange(0, b, s), "[i for i in :b:s]")
	case 9:
		vxSameInts(ForInExpr3(a, b, s), want, "for i in a+0:b+0:s+0")
	case 10:
		vxSameInts(ForInIf3(a, b, s), vxEven(want), "for i in a:b:s if cond")
	case 11:
		vxSameInts(ComprIf3(a, b, s), vxEven(want), "[i for i in a:b:s if cond]")
	case 12:
		vxAssert(ForRangeCount3(a, b, s) == len(want), "for range a:b:s: iteration count differs from the documented range")
	case 13:
		m := MapCompr3(a, b, s)
		vxAssert(len(m) == len(want), "{i: v for i in a:b:s}: number of keys differs from the documented range")
		for _, k := range want {
			v, ok := m[k]
			vxAssert(ok && v == 2*k, "{i: v for i in a:b:s}: key missing or wrong value")
		}
	case 14:
		k := vxIntRange(-R, R)
		found := false
		for _, x := range want {
			if x == k {
				found = true
			}
		}
		vxAssert(Exists3(a, b, s, k) == found, "{for i in a:b:s if cond}: existence differs from the documented range")
	case 15:
		vxSameInts(ForInLit(), vxRefRange(5, 0, -1), "for i in 5:0:-1")
	case 16:
		vxSameInts(ComprLit(), vxRefRange(5, 0, -1), "[i for i in 5:0:-1]")
	}
}
