package main

// C05: string interpolation equals explicit concatenation.
// Subject: the Go code the real XGo compiler emitted for interp.xgo.
// Reference: literal pieces ($$ read as a single $) + strconv formatting of numbers,
// the value itself for strings, Error() for errors; expressions evaluated once, left to right.

import (
	"errors"
	"strconv"
)

func vxTicks(want ...int) {
	vxAssert(len(ticks) == len(want), "an embedded expression is not evaluated exactly once")
	for i := range want {
		if i < len(ticks) {
			vxAssert(ticks[i] == want[i], "embedded expressions are not evaluated left to right")
		}
	}
}

func VxC05() {
	L := vxParam("L")
	i := vxIntRange(-vxParam("R"), vxParam("R"))
	j := vxIntRange(-vxParam("R"), vxParam("R"))
	s := vxString(vxIntRange(0, L))
	t := vxString(vxIntRange(0, L))
	e := errors.New("E:" + t)
	ticks = nil
	switch vxParam("FN") {
	case 0:
		vxAssert(IntOnly(i) == strconv.Itoa(i), "\"${i}\" differs from strconv.Itoa(i)")
	case 1:
		vxAssert(TextInt(i) == "n="+strconv.Itoa(i)+"!", "\"n=${i}!\" differs from its concatenation")
	case 2:
		vxAssert(StrStr(s, t) == s+"-"+t, "\"${s}-${t}\" differs from its concatenation")
	case 3:
		vxAssert(ErrPart(e) == "err="+e.Error(), "\"err=${e}\" differs from its concatenation")
	case 4:
		vxAssert(Dollar(i) == "$"+strconv.Itoa(i)+"$", "$$ is not read as a single $")
	case 5:
		vxAssert(DollarText(s) == "cost: $5 for "+s+"$", "$$ inside text is not read as a single $")
	case 6:
		vxAssert(Expr(i, j) == strconv.Itoa(i+j)+" and "+strconv.Itoa(i*2), "embedded arithmetic expressions differ from their concatenation")
	case 7:
		vxAssert(Calls(i, s) == strconv.Itoa(i)+":"+s+":"+strconv.Itoa(i+1), "embedded calls differ from their concatenation")
		vxTicks(1, 2, 3)
	case 8:
		vxAssert(Mixed(i, s, e) == "<"+s+"|"+strconv.Itoa(i)+"|"+e.Error()+">", "mixed interpolation differs from its concatenation")
	case 10:
		vxAssert(Blanks(s, t) == s+" "+t, "a blank between two interpolations is lost")
		vxAssert(LeadBlank(s) == " "+s+"\t"+s+" ", "blanks and tabs around interpolations are lost")
		vxAssert(DollarBlank(i) == strconv.Itoa(i)+" $ "+strconv.Itoa(i), "blanks around $$ between interpolations are lost")
		vxAssert(RawLines(s, t) == s+"\n"+t, "the line break between two interpolations of a raw string is lost")
	case 9:
		k := int64(i) * 1000003
		vxAssert(Int64Part(k) == strconv.FormatInt(k, 10), "\"${i}\" of an int64 differs from strconv.FormatInt")
	}
}
