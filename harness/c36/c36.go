package PKG

// C36: the import cache key (dirHash) changes exactly when package sources change.
//
// "Any history of file-system operations" reduces to two arbitrary directory
// states A and B, the hash being a function of the state. Symbolically,
// os.ReadDir is replaced by a listing model (sorted distinct names of up to
// L symbolic bytes after a concrete prefix, IsDir/Size/ModTime symbolic) and
// sha256 by a transcript recorder (assumption: no SHA-256 collisions);
// dirHash, canCl, path.Ext, modfile.ClassExt, Module.IsClass and the
// fmt.Fprintf record format run for real. Natively (replay) the same
// harness materialises both states as real directories and compares the
// real dirHash strings.

import (
	"hash"
	"io/fs"
	"os"
	"path/filepath"
	"time"

	"github.com/goplus/mod/modload"
	"github.com/goplus/mod/xgomod"
)

type vxFileInfo struct {
	name  string
	size  int64
	mtime time.Time
	dir   bool
}

func (f vxFileInfo) Name() string       { return f.name }
func (f vxFileInfo) Size() int64        { return f.size }
func (f vxFileInfo) Mode() fs.FileMode  { return 0644 }
func (f vxFileInfo) ModTime() time.Time { return f.mtime }
func (f vxFileInfo) IsDir() bool        { return f.dir }
func (f vxFileInfo) Sys() any           { return nil }

type vxDirEntry struct{ fi vxFileInfo }

func (e vxDirEntry) Name() string               { return e.fi.name }
func (e vxDirEntry) IsDir() bool                { return e.fi.dir }
func (e vxDirEntry) Type() fs.FileMode          { return 0 }
func (e vxDirEntry) Info() (fs.FileInfo, error) { return e.fi, nil }

var vxDirs = map[string][]os.DirEntry{}

// vxReadDir replaces os.ReadDir in the symbolic run.
func vxReadDir(dir string) ([]os.DirEntry, error) { return vxDirs[dir], nil }

type vxHashT struct{ buf []byte }

var vxTranscripts []string

// vxNewHash replaces crypto/sha256.New in the symbolic run: it records what is hashed.
func vxNewHash() hash.Hash { return &vxHashT{} }

func (h *vxHashT) Write(p []byte) (int, error) { h.buf = append(h.buf, p...); return len(p), nil }
func (h *vxHashT) Sum(b []byte) []byte {
	vxTranscripts = append(vxTranscripts, string(h.buf))
	return append(b, 1, 2, 3)
}
func (h *vxHashT) Reset()         { h.buf = nil }
func (h *vxHashT) Size() int      { return 3 }
func (h *vxHashT) BlockSize() int { return 64 }

// vxIsClass replaces (*xgomod.Module).IsClass in the symbolic run: the class
// extensions of the default module (cross-validated natively on sampled paths).
func vxIsClass(p *xgomod.Module, ext string) bool {
	return ext == ".spx" || ext == ".gsh" || ext == "_test.gox"
}

var vxC36Pre = []string{"", "_", "a", "m."}

// concrete endings after the symbolic middle part (extensions of both kinds, class-file suffixes)
var vxC36Suf = []string{"", ".go", ".gox", "_test.gox", ".spx", ".txt"}

type vxFile struct {
	name  string
	dir   bool
	size  int
	mtime int
}

// reference: is the entry part of the package sources (statement of the property)
func vxRelevant(f vxFile) bool {
	if f.dir || (len(f.name) > 0 && f.name[0] == '_') {
		return false
	}
	ext := ""
	for i := len(f.name) - 1; i >= 0; i-- {
		if f.name[i] == '.' {
			ext = f.name[i:]
			break
		}
	}
	switch ext {
	case ".go", ".xgo", ".gop", ".gox", ".spx", ".gsh":
		return true
	}
	return false
}

func vxGenState(tag string, k, L int) []vxFile {
	fs := make([]vxFile, k)
	for i := range fs {
		pre := vxC36Pre[vxConcrete(vxIntRange(0, len(vxC36Pre)-1))]
		suf := vxC36Suf[vxConcrete(vxIntRange(0, len(vxC36Suf)-1))]
		n := vxIntRange(0, L)
		tail := vxString(n)
		for j := 0; j < len(tail); j++ {
			c := tail[j]
			// file-name bytes: printable ASCII without '/' (TAB/LF in names are outside this bound)
			vxAssume(c > ' ' && c < 0x7f && c != '/')
		}
		fs[i].name = pre + tail + suf
		vxAssume(len(fs[i].name) > 0 && fs[i].name != "." && fs[i].name != "..")
		fs[i].dir = vxBool()
		fs[i].size = vxIntRange(0, vxParam("R"))
		fs[i].mtime = vxIntRange(1, vxParam("R")) // nanoseconds after second 1 (no symbolic multiplication by 1e9)
		if i > 0 {
			vxAssume(fs[i-1].name < fs[i].name) // os.ReadDir returns entries sorted by name
		}
		vxNote(tag+string(rune('0'+i)), fs[i].name)
		vxNote(tag+"size"+string(rune('0'+i)), fs[i].size)
		vxNote(tag+"mtime"+string(rune('0'+i)), fs[i].mtime)
	}
	return fs
}

func vxSameSources(a, b []vxFile) bool {
	var ra, rb []vxFile
	for _, f := range a {
		if vxRelevant(f) {
			ra = append(ra, f)
		}
	}
	for _, f := range b {
		if vxRelevant(f) {
			rb = append(rb, f)
		}
	}
	if len(ra) != len(rb) {
		return false
	}
	for i := range ra {
		if ra[i].name != rb[i].name || ra[i].size != rb[i].size || ra[i].mtime != rb[i].mtime {
			return false
		}
	}
	return true
}

func vxHashOf(mod *xgomod.Module, tag string, files []vxFile) string {
	if vxSymbolic() {
		var ents []os.DirEntry
		for _, f := range files {
			ents = append(ents, vxDirEntry{vxFileInfo{f.name, int64(f.size), time.Unix(1, int64(f.mtime)), f.dir}})
		}
		vxDirs[tag] = ents
		n0 := len(vxTranscripts)
		dirHash(mod, nil, tag, false)
		return vxTranscripts[n0]
	}
	// native: a real directory
	dir, err := os.MkdirTemp("", "vxc36")
	if err != nil {
		panic(err)
	}
	defer os.RemoveAll(dir)
	for _, f := range files {
		p := filepath.Join(dir, f.name)
		if f.dir {
			if err := os.Mkdir(p, 0755); err != nil {
				panic(err)
			}
			continue
		}
		fh, err := os.Create(p)
		if err != nil {
			panic(err)
		}
		fh.Truncate(int64(f.size))
		fh.Close()
		mt := time.Unix(1, int64(f.mtime))
		os.Chtimes(p, mt, mt)
	}
	return dirHash(mod, nil, dir, false)
}

func VxC36() {
	K := vxParam("K")
	L := vxParam("L")
	ka := vxConcrete(vxIntRange(0, K))
	kb := vxConcrete(vxIntRange(0, K))
	a := vxGenState("A", ka, L)
	b := vxGenState("B", kb, L)
	var mod *xgomod.Module
	if !vxSymbolic() {
		// native: the default module with its built-in class files (.spx, .gsh, _test.gox)
		mod = xgomod.New(modload.Default)
		mod.ImportClasses()
	}
	ha := vxHashOf(mod, "A", a)
	hb := vxHashOf(mod, "B", b)
	vxObserve("equal", ha == hb)
	if vxSameSources(a, b) {
		vxReach("same-sources")
		vxAssert(ha == hb, "hash differs although no compilable source file changed")
	} else {
		vxReach("different-sources")
		vxAssert(ha != hb, "hash unchanged although a compilable source file appeared, disappeared or changed name, size or mtime")
	}
}
