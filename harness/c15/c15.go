package PKG

// C15: scanning is total and every token is the exact source text.
//
// VxC15Step: T consecutive Scan calls of the real scanner over a window of
// up to N symbolic bytes, started from an arbitrary scanner state
// (insertSemi, nParen, line-start flag symbolic). VxC15Stream: the whole
// token stream of a short input from the initial state.

import (
	"github.com/goplus/xgo/token"
)

func vxNoCR(b []byte) string {
	var out []byte
	for _, c := range b {
		if c != '\r' {
			out = append(out, c)
		}
	}
	return string(out)
}

func vxIsWS(c byte) bool {
	return c == ' ' || c == '\t' || c == '\n' || c == '\r'
}

func vxIsLiteralOrComment(tok token.Token) bool {
	switch tok {
	case token.IDENT, token.INT, token.FLOAT, token.IMAG, token.RAT, token.CHAR, token.STRING,
		token.CSTRING, token.PYSTRING, token.COMMENT, token.UNIT:
		return true
	}
	return false
}

// vxC15Run performs up to T scans and checks every step. all: require EOF within T steps.
func vxC15Run(src []byte, mode Mode, T int, arbitraryState bool, needEOF bool) {
	fset := token.NewFileSet()
	file := fset.AddFile("a.xgo", -1, len(src))
	base := file.Base()
	var s Scanner
	errOutside := false
	s.InitEx(file, src, 0, func(pos token.Position, msg string) {
		if pos.Offset < 0 || pos.Offset > len(src) {
			errOutside = true
		}
	}, mode)
	if arbitraryState {
		s.insertSemi = vxBool()
		s.nParen = vxIntRange(-1, 1)
		if vxBool() {
			s.lineOffset = -1 // the current line started before the window
		}
	}
	prevEnd := 0
	if len(src) >= 3 && src[0] == 0xEF && src[1] == 0xBB && src[2] == 0xBF {
		prevEnd = 3 // a byte order mark at the very beginning is skipped by design (as in Go)
	}
	sawEOF := false
	for step := 0; step < T; step++ {
		preMeasure := 4*(len(src)-s.offset) + 1
		if s.unitVal != "" {
			preMeasure += 2
		}
		if !s.insertSemi {
			preMeasure--
		}
		pos, tok, lit := s.Scan()
		off := int(pos) - base
		end := s.offset - len(s.unitVal)
		vxAssert(!errOutside, "error reported at a position outside the source")
		// scanner representation invariant
		vxAssert(0 <= s.offset && s.offset <= s.rdOffset && s.rdOffset <= len(src), "scanner offsets out of order")
		vxAssert(off >= 0 && off <= len(src), "token offset outside the source")
		vxAssert(off >= prevEnd, "token offset before the end of the previous token")
		if tok == token.EOF {
			vxReach("eof")
			vxAssert(off == len(src), "EOF not at the end of the source")
			if mode&ScanComments != 0 {
				for k := prevEnd; k < len(src); k++ {
					vxAssert(vxIsWS(src[k]), "non-whitespace byte before EOF belongs to no token")
				}
			}
			sawEOF = true
			break
		}
		postMeasure := 4*(len(src)-s.offset) + 1
		if s.unitVal != "" {
			postMeasure += 2
		}
		if !s.insertSemi {
			postMeasure--
		}
		vxAssert(postMeasure < preMeasure, "Scan made no progress")
		vxAssert(end >= off && end <= len(src), "token end outside the source")
		if mode&ScanComments != 0 {
			for k := prevEnd; k < off; k++ {
				vxAssert(vxIsWS(src[k]), "non-whitespace byte between tokens belongs to no token")
			}
		}
		switch {
		case tok == token.SEMICOLON && lit == "\n":
			vxReach("autosemi")
			// inserted semicolon: zero width, or exactly the newline it replaces
			vxAssert(end == off || (end == off+1 && src[off] == '\n'), "inserted semicolon covers source text")
		case tok == token.SEMICOLON:
			vxAssert(lit == ";" && end == off+1 && src[off] == ';', "explicit semicolon text mismatch")
		case tok == token.ILLEGAL:
			vxReach("illegal")
			vxAssert(end > off, "ILLEGAL token is empty")
		case tok == token.CSTRING:
			// c"..." : the token starts at the prefix, the literal is the quoted part
			vxReach("cstring")
			vxAssert(end > off+1 && (src[off] == 'c' || src[off] == 'C'), "CSTRING without its prefix")
			vxAssert(lit == string(src[off+1:end]), "CSTRING literal differs from the source bytes after the prefix")
		case tok == token.PYSTRING:
			vxReach("pystring")
			vxAssert(end > off+2 && src[off] == 'p' && src[off+1] == 'y', "PYSTRING without its prefix")
			vxAssert(lit == string(src[off+2:end]), "PYSTRING literal differs from the source bytes after the prefix")
		case vxIsLiteralOrComment(tok):
			vxReach("literal")
			vxAssert(end > off, "empty literal token")
			vxAssert(vxNoCR([]byte(lit)) == vxNoCR(src[off:end]), "literal text differs from the source bytes")
		case tok.IsKeyword():
			vxReach("keyword")
			vxAssert(lit == string(src[off:end]), "keyword literal differs from the source bytes")
			vxAssert(tok.String() == lit, "keyword token does not spell its literal")
		default:
			vxReach("operator")
			vxAssert(tok.String() == string(src[off:end]), "operator spelling differs from the source bytes")
		}
		prevEnd = end
	}
	if needEOF {
		vxAssert(sawEOF, "no EOF after one token per byte plus inserted semicolons")
	}
}

// Concrete contexts placed before the symbolic window (parameter P selects
// one): they put the window inside literals, escapes, comments, line
// directives and multi-byte operators without spending symbolic bytes.
var vxC15Prefixes = []string{
	"", "x ", "1", "0x", "0b1", "1e", "1.5e+", "0x1p", "1_", "\"\\", "\"\\u00", "\"\\x", "'\\", "'\\U0010",
	"`a\r", "//line ", "/*line :", "//line a:1:", "#", "# a\r", "/*", "/* *", "c\"", "py\"a", "1p", "1px", "..",
	")\n", "x /", "<", "&", "=", "-", ">>", "&^", "x\n//", "x /*", "#*line ", "1r", "0o", "\xef\xbb\xbf", "'", "x\r",
	"0X", "0B", "0O", "0X1P", "1E", "0x_",
}

func vxC15Input() ([]byte, Mode) {
	N := vxParam("N")
	n := vxIntRange(0, N)
	win := vxBytes(n)
	if vxParam("ASCII") == 1 {
		for _, b := range win {
			vxAssume(b < 0x80)
		}
	}
	src := append([]byte(vxC15Prefixes[vxParam("P")]), win...)
	vxNote("src", src)
	mode := Mode(0)
	if vxBool() {
		mode = ScanComments
	}
	if mode != 0 {
		vxNote("mode", "ScanComments")
	}
	return src, mode
}

func VxC15Step() {
	src, mode := vxC15Input()
	vxC15Run(src, mode, vxParam("T"), true, false)
}

func VxC15Stream() {
	src, mode := vxC15Input()
	// at most one token per byte, one inserted semicolon per token, plus EOF
	vxC15Run(src, mode, 2*len(src)+2, false, true)
}
