package PKG

// C17 (node spans) and C18 (Walk visits every node exactly once) on trees
// the real parser produces for: the C13 contexts around a window of up to N
// symbolic bytes (only error-free parses), and the repository's own parser
// test data (concrete corpus). vxChildren / vxKind are generated at check
// time from the current source of package ast.

import (
	"github.com/goplus/xgo/ast"
	"github.com/goplus/xgo/scanner"
	"github.com/goplus/xgo/token"
)

type vxVisited struct {
	node     ast.Node
	children []*vxVisited
	left     bool // Visit(nil) seen after the children
}

type vxRecorder struct {
	stack []*vxVisited
	root  *vxVisited
	bad   string
}

func (r *vxRecorder) Visit(n ast.Node) ast.Visitor {
	if n == nil {
		if len(r.stack) == 0 {
			r.bad = "Visit(nil) without a matching node"
			return nil
		}
		top := r.stack[len(r.stack)-1]
		top.left = true
		r.stack = r.stack[:len(r.stack)-1]
		return nil
	}
	v := &vxVisited{node: n}
	if len(r.stack) == 0 {
		if r.root != nil {
			r.bad = "second root"
		}
		r.root = v
	} else {
		top := r.stack[len(r.stack)-1]
		top.children = append(top.children, v)
	}
	r.stack = append(r.stack, v)
	return r
}

func vxIsComment(n ast.Node) bool {
	switch n.(type) {
	case *ast.CommentGroup, *ast.Comment:
		return true
	}
	return false
}

// vxCheckWalk: C18 on one visited node (recursively).
func vxCheckWalk(v *vxVisited) {
	vxAssert(v.left, "Walk did not call Visit(nil) after a node's children")
	want := vxAllChildren(v.node)
	// conventions of the XGo tree: a synthesized package name (no package clause) and the
	// synthesized header of a shadow entry function are not part of the source
	switch n := v.node.(type) {
	case *ast.File:
		if n.NoPkgDecl {
			want = vxWithout(want, n.Name)
		}
	case *ast.FuncDecl:
		if n.Shadow {
			want = nil
			if n.Body != nil {
				want = []ast.Node{n.Body}
			}
		}
	}
	// every expected child visited exactly once, nothing else visited
	for _, w := range want {
		cnt := 0
		for _, c := range v.children {
			if c.node == w {
				cnt++
			}
		}
		vxAssert(cnt == 1, "Walk does not visit a child node exactly once ("+vxKind(v.node)+" -> "+vxKind(w)+")")
	}
	vxAssert(len(v.children) == len(want), "Walk visits something that is not a child ("+vxKind(v.node)+")")
	// siblings in source order (go/ast conventions: comment groups, and FuncDecl.Type whose Pos is the func keyword)
	var prev ast.Node
	for _, c := range v.children {
		if vxIsComment(c.node) {
			continue
		}
		if _, isFD := v.node.(*ast.FuncDecl); isFD {
			if _, isFT := c.node.(*ast.FuncType); isFT {
				continue
			}
		}
		if prev != nil {
			vxAssert(prev.Pos() <= c.node.Pos(), "Walk visits siblings out of source order ("+vxKind(v.node)+": "+vxKind(prev)+" before "+vxKind(c.node)+")")
		}
		prev = c.node
	}
	for _, c := range v.children {
		vxCheckWalk(c)
	}
}

type vxTokBounds struct {
	start map[int]bool
	end   map[int]bool
}

func vxScanBounds(src []byte) vxTokBounds {
	b := vxTokBounds{map[int]bool{}, map[int]bool{}}
	fset := token.NewFileSet()
	file := fset.AddFile("a.xgo", -1, len(src))
	var s scanner.Scanner
	s.Init(file, src, nil, scanner.ScanComments)
	for i := 0; i < 4*len(src)+8; i++ {
		pos, tok, lit := s.Scan()
		if tok == token.EOF {
			break
		}
		off := int(pos) - file.Base()
		b.start[off] = true
		n := len(lit)
		switch {
		case tok == token.SEMICOLON && lit == "\n":
			n = 0
		case tok == token.CSTRING:
			n = len(lit) + 1
		case tok == token.PYSTRING:
			n = len(lit) + 2
		case n == 0 || tok == token.SEMICOLON:
			n = len(tok.String())
		}
		b.end[off+n] = true
	}
	return b
}

// vxCheckSpans: C17 on one node (recursively).
func vxCheckSpans(n ast.Node, base int, src []byte, tb vxTokBounds, checkTokens bool) {
	vxAssert(n.Pos().IsValid() && n.Pos() <= n.End(), "node with invalid or inverted span ("+vxKind(n)+")")
	shadow := false
	if fd, ok := n.(*ast.FuncDecl); ok && fd.Shadow {
		shadow = true
	}
	if checkTokens && !vxIsComment(n) && !shadow {
		if _, isFile := n.(*ast.File); !isFile {
			vxAssert(tb.start[int(n.Pos())-base], "node does not start at the first byte of a token ("+vxKind(n)+")")
			if !vxEndsImplicit(n) {
				vxAssert(tb.end[int(n.End())-base], "node does not end just after its last token ("+vxKind(n)+")")
			}
		}
	}
	var prev ast.Node
	for _, c := range vxSourceChildren(n) {
		if vxIsComment(c) {
			continue
		}
		if _, isFile := n.(*ast.File); !isFile {
			vxAssert(n.Pos() <= c.Pos() && c.End() <= n.End(), "child outside its parent's span ("+vxKind(n)+" -> "+vxKind(c)+")")
		}
		_, isFD := n.(*ast.FuncDecl)
		_, isFT := c.(*ast.FuncType)
		if !(isFD && isFT) {
			if prev != nil {
				vxAssert(prev.End() <= c.Pos(), "sibling nodes overlap or are out of source order ("+vxKind(n)+": "+vxKind(prev)+", "+vxKind(c)+")")
			}
			prev = c
		}
		inLiteral := false
		switch n.(type) {
		case *ast.BasicLit, *ast.DomainTextLit:
			inLiteral = true // expressions inside a string / domain text literal: no token of the file's scan
		}
		vxCheckSpans(c, base, src, tb, checkTokens && !inLiteral)
	}
}

// vxSig: pre-order signature of a subtree (kinds and spans relative to origin).
func vxSig(n ast.Node, origin token.Pos) string {
	s := "(" + vxKind(n) + vxItoa(int(n.Pos()-origin)) + ":" + vxItoa(int(n.End()-origin))
	for _, c := range vxSourceChildren(n) {
		if vxIsComment(c) {
			continue
		}
		s += vxSig(c, origin)
	}
	return s + ")"
}

func vxItoa(v int) string {
	if v < 0 {
		return "-" + vxItoa(-v)
	}
	if v < 10 {
		return string(rune('0' + v))
	}
	return vxItoa(v/10) + string(rune('0'+v%10))
}

// vxCheckReparse: re-parsing an expression node's source slice yields the same expression.
func vxCheckReparse(n ast.Node, base int, src []byte, budget *int) {
	if e, ok := n.(ast.Expr); ok && *budget > 0 {
		switch e.(type) {
		case *ast.KeyValueExpr, *ast.Ellipsis, *ast.ElemEllipsis, *ast.ForPhrase, *ast.LambdaExpr, *ast.LambdaExpr2, *ast.FuncType, *ast.BadExpr, *ast.RangeExpr, *ast.ForPhraseStmt:
			// not expressions on their own (a range a:b:c only exists inside for-in / [...])
		default:
			if call, isCall := e.(*ast.CallExpr); isCall && call.IsCommand() {
				break // command-style call: statement syntax, not an expression on its own
			}
			if id, isId := e.(*ast.Ident); isId && (len(id.Name) == 0 || !(id.Name[0] == '_' || id.Name[0] >= 'a' && id.Name[0] <= 'z' || id.Name[0] >= 'A' && id.Name[0] <= 'Z' || id.Name[0] >= 0x80)) {
				break // operator name of an overload declaration
			}
			*budget--
			lo, hi := int(e.Pos())-base, int(e.End())-base
			if lo >= 0 && hi <= len(src) && lo < hi {
				fset := token.NewFileSet()
				e2, err := ParseExprFrom(fset, "s.xgo", src[lo:hi], 0)
				vxAssert(err == nil, "re-parsing a node's source slice fails ("+vxKind(e)+")")
				if err == nil {
					f2 := fset.File(e2.Pos())
					vxAssert(vxSig(e2, token.Pos(f2.Base())) == vxSig(e, e.Pos()), "re-parsing a node's source slice yields a different expression ("+vxKind(e)+")")
				}
			}
		}
	}
	for _, c := range vxSourceChildren(n) {
		if !vxIsComment(c) {
			vxCheckReparse(c, base, src, budget)
		}
	}
}

func vxParseCtx(src []byte, kind int, mode Mode) (root ast.Node, base int, err error) {
	fset := token.NewFileSet()
	switch kind {
	case 0:
		f, e := ParseFile(fset, "a.xgo", src, mode)
		root, err = f, e
	case 1:
		x, e := ParseExprFrom(fset, "a.xgo", src, mode)
		if x != nil {
			root = x
		}
		err = e
	default:
		f, e := ParseFile(fset, "a.gox", src, mode|ParseGoPlusClass)
		root, err = f, e
	}
	fset.Iterate(func(f *token.File) bool { base = f.Base(); return false })
	return
}

func vxWindowSrc() ([]byte, int) {
	N := vxParam("N")
	n := vxIntRange(0, N)
	win := vxBytes(n)
	for _, b := range win {
		vxAssume(b < 0x80)
		if vxParam("REPARSE") >= 0 && vxParam("NOCR") == 1 {
			vxAssume(b != '\r') // carriage returns are stripped from raw strings and comments: spans "carriage returns aside"
		}
	}
	c := vxC13Ctx[vxParam("P")]
	src := append(append([]byte(c.pre), win...), []byte(c.suf)...)
	vxNote("src", src)
	return src, c.kind
}

func vxRunC18(src []byte, kind int, mode Mode) {
	root, _, err := vxParseCtx(src, kind, mode)
	if err != nil || root == nil {
		return
	}
	vxReach("accepted")
	rec := &vxRecorder{}
	ast.Walk(rec, root) // must not panic on any node kind
	vxAssert(rec.bad == "" && len(rec.stack) == 0 && rec.root != nil, "Walk's Visit(node)/Visit(nil) calls are not balanced")
	if rec.root != nil {
		vxCheckWalk(rec.root)
	}
	// Inspect visits the same nodes
	cnt := 0
	ast.Inspect(root, func(n ast.Node) bool {
		if n != nil {
			cnt++
		}
		return true
	})
	vxAssert(cnt == vxCountVisited(rec.root), "Inspect and Walk visit a different number of nodes")
}

func vxCountVisited(v *vxVisited) int {
	if v == nil {
		return 0
	}
	n := 1
	for _, c := range v.children {
		n += vxCountVisited(c)
	}
	return n
}

func vxRunC17(src []byte, kind int, mode Mode) {
	root, base, err := vxParseCtx(src, kind, mode)
	if err != nil || root == nil {
		return
	}
	vxReach("accepted")
	tb := vxScanBounds(src)
	vxCheckSpans(root, base, src, tb, true)
	budget := vxParam("REPARSE")
	vxCheckReparse(root, base, src, &budget)
}

func VxC18() {
	src, kind := vxWindowSrc()
	mode := Mode(0)
	if vxBool() {
		mode = ParseComments
	}
	vxRunC18(src, kind, mode)
}

func VxC17() {
	src, kind := vxWindowSrc()
	vxRunC17(src, kind, 0)
}

func VxC18Corpus() {
	i := vxConcrete(vxIntRange(0, len(vxCorpus)-1))
	vxNote("file", vxCorpusNames[i])
	kind := 0
	if len(vxCorpusNames[i]) > 4 && vxCorpusNames[i][len(vxCorpusNames[i])-4:] == ".gox" {
		kind = 2
	}
	vxRunC18([]byte(vxCorpus[i]), kind, ParseComments)
}

func VxC17Corpus() {
	i := vxConcrete(vxIntRange(0, len(vxCorpus)-1))
	vxNote("file", vxCorpusNames[i])
	kind := 0
	if len(vxCorpusNames[i]) > 4 && vxCorpusNames[i][len(vxCorpusNames[i])-4:] == ".gox" {
		kind = 2
	}
	vxRunC17([]byte(vxCorpus[i]), kind, 0)
}

func vxWithout(l []ast.Node, x ast.Node) []ast.Node {
	var out []ast.Node
	for _, y := range l {
		if y != x {
			out = append(out, y)
		}
	}
	return out
}

// vxAllChildren: the generated field-based children plus the Node values held in
// `any`-typed extras (interpolated expressions of string literals, domain text arguments).
func vxAllChildren(n ast.Node) []ast.Node {
	out := vxChildren(n)
	addParts := func(ex *ast.StringLitEx) {
		if ex != nil {
			for _, p := range ex.Parts {
				if e, ok := p.(ast.Expr); ok && e != nil {
					out = append(out, e)
				}
			}
		}
	}
	switch n := n.(type) {
	case *ast.BasicLit:
		addParts(n.Extra)
	case *ast.DomainTextLit:
		switch ex := n.Extra.(type) {
		case *ast.StringLitEx:
			addParts(ex)
		case *ast.DomainTextLitEx:
			if ex != nil {
				for _, a := range ex.Args {
					if a != nil {
						out = append(out, a)
					}
				}
			}
		}
	}
	return out
}

// vxSourceChildren: children that correspond to source text (synthesized nodes removed):
// the package name of a file without package clause and the header of a shadow entry function.
func vxSourceChildren(n ast.Node) []ast.Node {
	out := vxAllChildren(n)
	switch n := n.(type) {
	case *ast.File:
		if n.NoPkgDecl {
			out = vxWithout(out, n.Name)
		}
	case *ast.FuncDecl:
		if n.Shadow {
			// the entry function of a script is synthesized around the top-level statements
			out = nil
			if n.Body != nil {
				for _, st := range n.Body.List {
					out = append(out, st)
				}
			}
		}
	}
	// nodes without a position are synthesized (e.g. the receiver of a static method `func .New()`)
	var src []ast.Node
	for _, c := range out {
		if c.Pos().IsValid() {
			src = append(src, c)
		}
	}
	return src
}

// vxEndsImplicit: go/ast heritage - an implicit empty statement (after a label directly before
// '}') has zero width at the position of the next token, and so has the statement it ends.
func vxEndsImplicit(n ast.Node) bool {
	switch n := n.(type) {
	case *ast.EmptyStmt:
		return n.Implicit
	case *ast.LabeledStmt:
		return n.Stmt != nil && vxEndsImplicit(n.Stmt)
	}
	return false
}
