package PKG

// C40: watch mode never loses or duplicates a changed directory.
//
// P producers each report one changed file (the directory is a symbolic byte,
// so "same directory twice" and "different directories" are both covered),
// C consumers each do one Fetch(false). The engine's scheduler explores the
// interleavings at every mutex / condition-variable operation (each pick is
// a symbolic variable); the map-range "pick any" in Fetch is a symbolic
// choice too. When no goroutine can run any more the harness inspects the
// final state. Natively (replay) the scenario is repeated many times under
// the Go scheduler.

func vxC40Once(names []string, C int) {
	P := len(names)
	vxSchedReset() // native: follow the schedule of the counter-example being replayed, if any
	c := NewChanges("/r")
	fetched := make([]string, C)
	fdone := make([]bool, C)
	reported := make([]bool, P)
	for j := 0; j < C; j++ {
		j := j
		go func() {
			d := c.Fetch(false)
			fetched[j], fdone[j] = d, true
		}()
	}
	vxPause() // native replay: let the consumers reach their wait first (one of the explored schedules)
	for i := 0; i < P; i++ {
		i := i
		go func() {
			c.FileChanged(names[i])
			reported[i] = true
		}()
	}
	vxQuiesce()

	nfetched := 0
	for j := 0; j < C; j++ {
		if !fdone[j] {
			continue
		}
		nfetched++
		d := fetched[j]
		nrep, nfet := 0, 0
		for i := 0; i < P; i++ {
			if names[i][:1] == d {
				nrep++
			}
		}
		for k := 0; k < C; k++ {
			if fdone[k] && fetched[k] == d {
				nfet++
			}
		}
		vxAssert(nrep > 0, "fetch returned a directory that was never reported")
		vxAssert(nfet <= nrep, "a directory was returned more often than it was reported")
	}
	for i := 0; i < P; i++ {
		vxAssert(reported[i], "a change report did not return")
	}
	// every reported directory is either fetched or still pending: nothing is lost
	c.mutex.Lock()
	pending := len(c.changed)
	for i := 0; i < P; i++ {
		d := names[i][:1]
		_, inPending := c.changed[d]
		wasFetched := false
		for k := 0; k < C; k++ {
			if fdone[k] && fetched[k] == d {
				wasFetched = true
			}
		}
		vxAssert(inPending || wasFetched, "a reported directory was lost")
	}
	c.mutex.Unlock()
	// a waiting fetch wakes up once a change is reported: no consumer may stay
	// blocked while a changed directory is pending
	if nfetched < C {
		vxReach("some-consumer-still-waiting")
		vxAssert(pending == 0, "a fetch is still waiting although a changed directory is pending (lost wake-up)")
	}
}

func VxC40() {
	P := vxParam("P")
	C := vxParam("C")
	names := make([]string, P)
	for i := range names {
		b := vxByte()
		vxAssume(b == 'a' || b == 'b') // two possible directories
		names[i] = string([]byte{b}) + "/f" + string(rune('0'+i)) + ".xgo"
	}
	iters := 1
	if !vxSymbolic() {
		iters = vxParam("ITERS") // native: many runs under the Go scheduler
		if iters == 0 {
			iters = 150
		}
	}
	for it := 0; it < iters; it++ {
		if it%2 == 0 {
			vxProcs(1) // native: run-until-block scheduling
		} else {
			vxProcs(4)
		}
		vxC40Once(names, C)
	}
}
