package PKG

// C40: watch mode never loses or duplicates a changed directory.
//
// P producers each report one changed file (names with symbolic bytes, so
// "same directory twice" and "different directories" are both covered),
// C consumers each do one Fetch(false). The engine's scheduler explores the
// interleavings at every mutex / condition-variable operation (each pick is
// a symbolic variable); the map-range "pick any" in Fetch is a symbolic
// choice too. When no goroutine can run any more the harness inspects the
// final state.

var vxFetched []string
var vxReports []string

func VxC40() {
	P := vxParam("P")
	C := vxParam("C")
	c := NewChanges("/r")
	names := make([]string, P)
	for i := range names {
		b := vxByte()
		vxAssume(b == 'a' || b == 'b') // two possible directories
		names[i] = string([]byte{b}) + "/f" + string(rune('0'+i)) + ".xgo"
	}
	vxFetched = nil
	vxReports = nil
	for i := 0; i < P; i++ {
		name := names[i]
		go func() {
			vxReports = append(vxReports, name[:1])
			c.FileChanged(name)
		}()
	}
	for j := 0; j < C; j++ {
		go func() {
			d := c.Fetch(false)
			vxFetched = append(vxFetched, d)
		}()
	}
	blocked := vxQuiesce()

	// distinct directories reported
	distinct := 0
	seenA, seenB := false, false
	for _, r := range vxReports {
		if r == "a" && !seenA {
			seenA = true
			distinct++
		}
		if r == "b" && !seenB {
			seenB = true
			distinct++
		}
	}
	vxAssert(len(vxReports) == P, "a producer did not finish")
	for _, d := range vxFetched {
		vxAssert(d == "a" || d == "b", "fetch returned a directory that was never reported")
		nrep, nfet := 0, 0
		for _, r := range vxReports {
			if r == d {
				nrep++
			}
		}
		for _, f := range vxFetched {
			if f == d {
				nfet++
			}
		}
		vxAssert(nrep > 0, "fetch returned a directory that was never reported")
		vxAssert(nfet <= nrep, "a directory was returned more often than it was reported")
	}
	// every reported directory is either fetched or still pending; nothing is lost
	c.mutex.Lock()
	pending := len(c.changed)
	for d := range c.changed {
		for _, f := range vxFetched {
			_ = f
			_ = d
		}
	}
	c.mutex.Unlock()
	if seenA {
		_, inPending := c.changed["a"]
		fetchedA := false
		for _, f := range vxFetched {
			if f == "a" {
				fetchedA = true
			}
		}
		vxAssert(inPending || fetchedA, "a reported directory was lost")
	}
	if seenB {
		_, inPending := c.changed["b"]
		fetchedB := false
		for _, f := range vxFetched {
			if f == "b" {
				fetchedB = true
			}
		}
		vxAssert(inPending || fetchedB, "a reported directory was lost")
	}
	// a waiting fetch wakes up once a change is reported: no consumer may stay blocked while a change is pending
	if blocked > 0 {
		vxReach("some-consumer-still-waiting")
		vxAssert(pending == 0, "a fetch is still waiting although a changed directory is pending (lost wake-up)")
	}
	vxAssert(len(vxFetched)+blocked == C, "consumer accounting")
	_ = distinct
}
