package PKG

// C32: the TPL scanner tokenises like the XGo scanner on shared lexemes.
// Both real scanners run on the same bytes (concrete context P + window of
// up to N symbolic bytes, both comment modes); token offsets, literals and
// inserted semicolons are compared until EOF. Kinds are not compared (TPL
// has no keywords and names some operators differently).

import (
	xscanner "github.com/goplus/xgo/scanner"
	xtoken "github.com/goplus/xgo/token"
	"github.com/goplus/xgo/tpl/token"
)

var vxC32Prefixes = []string{
	"", "x ", "x\n", ")", "1", "0x", "1e", "1.5e+", "0x1p", "1_", "\"\\", "\"\\u00", "'\\", "`a\r",
	"/*", "/* *", "..", "x /", "<", "&", "=", "-", ">>", "&^", "'", "x\r", "//", "x //", "x /*", "#", "x #", "# a",
	"1px", "1p", "1r", "x.", "//line ", "x\n#", "*", "?", "$",
}

func vxNoCR32(s string) string {
	var out []byte
	for i := 0; i < len(s); i++ {
		if s[i] != '\r' {
			out = append(out, s[i])
		}
	}
	return string(out)
}

func VxC32() {
	N := vxParam("N")
	n := vxIntRange(0, N)
	win := vxBytes(n)
	for _, b := range win {
		// '~' and '@' are tokens of the TPL scanner only
		vxAssume(b != '~' && b != '@')
		if vxParam("ASCII") == 1 {
			vxAssume(b < 0x80)
		}
	}
	src := append([]byte(vxC32Prefixes[vxParam("P")]), win...)
	vxNote("src", src)
	scanComments := vxBool()
	if scanComments {
		vxNote("mode", "ScanComments")
	}

	// XGo scanner (public API)
	xfset := xtoken.NewFileSet()
	xfile := xfset.AddFile("a.xgo", -1, len(src))
	var x xscanner.Scanner
	xmode := xscanner.Mode(0)
	if scanComments {
		xmode = xscanner.ScanComments
	}
	x.Init(xfile, src, nil, xmode)

	// TPL scanner on a copy
	src2 := make([]byte, len(src))
	copy(src2, src)
	fset := token.NewFileSet()
	file := fset.AddFile("a.xgo", -1, len(src2))
	var s Scanner
	mode := Mode(0)
	if scanComments {
		mode = ScanComments
	}
	s.Init(file, src2, nil, mode)

	for step := 0; step < 2*len(src)+3; step++ {
		xpos, xtok, xlit := x.Scan()
		t := s.Scan()
		// lexemes that are not shared: keywords (TPL scans them as identifiers, which
		// changes semicolon insertion), c"..." and py"..." strings, and the TPL-only operator **
		if xtok.IsKeyword() || xtok == xtoken.CSTRING || xtok == xtoken.PYSTRING || t.Tok == token.POW {
			vxReach("not-shared")
			return
		}
		xoff := int(xpos) - xfile.Base()
		toff := int(t.Pos) - file.Base()
		xAuto := xtok == xtoken.SEMICOLON && xlit == "\n"
		tAuto := t.Tok == token.SEMICOLON && t.Lit == "\n"
		vxAssert(xoff == toff, "token offset differs between the XGo and TPL scanners")
		vxAssert(xAuto == tAuto, "inserted semicolon differs between the XGo and TPL scanners")
		vxAssert((xtok == xtoken.EOF) == (t.Tok == token.EOF), "EOF differs between the XGo and TPL scanners")
		if xtok == xtoken.COMMENT {
			vxAssert(t.Tok == token.COMMENT, "comment token differs between the XGo and TPL scanners")
			vxAssert(vxNoCR32(xlit) == vxNoCR32(t.Lit), "comment text differs between the XGo and TPL scanners")
		} else {
			vxAssert(xlit == t.Lit, "token literal differs between the XGo and TPL scanners")
		}
		if xtok == xtoken.EOF {
			vxReach("eof")
			break
		}
	}
}
