package PKG

// C22: printing a synthesized tree preserves its structure.
//
// Trees are built programmatically - no positions, no ParenExpr nodes - from a fixed family of shapes
// (parameter S) whose operators are symbolic: each binary operator is a token value the solver enumerates
// over everything the real Token.Precedence() accepts as a binary operator, each unary operator over the
// unary operator set. The real printer prints the tree; the real parser parses the text; after removing
// the parentheses the printer had to insert, the parsed tree must be the original one (node kinds,
// operators, names, structure - signatures generated from the current ast package).

import (
	"bytes"

	"github.com/goplus/xgo/ast"
	"github.com/goplus/xgo/parser"
	"github.com/goplus/xgo/token"
)

func vxBinOp() token.Token {
	op := token.Token(vxConcrete(vxIntRange(int(token.ADD), int(token.BIDIARROW))))
	vxAssume(op.Precedence() > token.LowestPrec)
	return op
}

var vxUnaryOps = []token.Token{token.ADD, token.SUB, token.NOT, token.XOR, token.AND, token.ARROW}

func vxUnOp() token.Token {
	return vxUnaryOps[vxConcrete(vxIntRange(0, len(vxUnaryOps)-1))]
}

func vxID(n string) *ast.Ident { return &ast.Ident{Name: n} }

func vxBin(op token.Token, x, y ast.Expr) ast.Expr { return &ast.BinaryExpr{X: x, Op: op, Y: y} }
func vxUn(op token.Token, x ast.Expr) ast.Expr    { return &ast.UnaryExpr{Op: op, X: x} }

// vxSig: signature of a tree without ParenExpr nodes (and without comments).
func vxSig(n ast.Node) string {
	if p, ok := n.(*ast.ParenExpr); ok {
		return vxSig(p.X)
	}
	s := "(" + vxKind(n) + ":" + vxLabel(n)
	for _, c := range vxChildren(n) {
		s += vxSig(c)
	}
	return s + ")"
}

func VxC22() {
	a, b, c, d := ast.Expr(vxID("a")), ast.Expr(vxID("b")), ast.Expr(vxID("c")), ast.Expr(vxID("d"))
	var e ast.Expr
	var st ast.Stmt
	switch vxParam("S") {
	case 0: // (a op2 b) op1 c
		op1, op2 := vxBinOp(), vxBinOp()
		e = vxBin(op1, vxBin(op2, a, b), c)
	case 1: // a op1 (b op2 c)
		op1, op2 := vxBinOp(), vxBinOp()
		e = vxBin(op1, a, vxBin(op2, b, c))
	case 2: // (a op2 b) op1 (c op3 d)
		op1, op2, op3 := vxBinOp(), vxBinOp(), vxBinOp()
		e = vxBin(op1, vxBin(op2, a, b), vxBin(op3, c, d))
	case 3: // u (a op b)
		e = vxUn(vxUnOp(), vxBin(vxBinOp(), a, b))
	case 4: // (u1 a) op (u2 b): a - -b, a & &b, a < <-b
		e = vxBin(vxBinOp(), vxUn(vxUnOp(), a), vxUn(vxUnOp(), b))
	case 5: // u1 u2 a: - -a, + +a, <- <-a
		e = vxUn(vxUnOp(), vxUn(vxUnOp(), a))
	case 6: // *(a op b), a op *b, * *a
		switch vxConcrete(vxIntRange(0, 2)) {
		case 0:
			e = &ast.StarExpr{X: vxBin(vxBinOp(), a, b)}
		case 1:
			e = vxBin(vxBinOp(), a, &ast.StarExpr{X: b})
		default:
			e = &ast.StarExpr{X: &ast.StarExpr{X: vxUn(vxUnOp(), a)}}
		}
	case 7: // postfix forms on a binary or unary operand
		var x ast.Expr
		if vxBool() {
			x = vxBin(vxBinOp(), a, b)
		} else {
			x = vxUn(vxUnOp(), a)
		}
		switch vxConcrete(vxIntRange(0, 5)) {
		case 0:
			e = &ast.SelectorExpr{X: x, Sel: vxID("f")}
		case 1:
			e = &ast.IndexExpr{X: x, Index: vxBin(vxBinOp(), c, d)}
		case 2:
			e = &ast.CallExpr{Fun: x, Args: []ast.Expr{c}}
		case 3:
			e = &ast.SliceExpr{X: x, Low: c, High: d}
		case 4:
			e = &ast.TypeAssertExpr{X: x, Type: vxID("T")}
		default:
			e = &ast.ErrWrapExpr{X: x, Tok: token.NOT}
		}
	case 8: // error-wrap with a default, lambda as an operand
		switch vxConcrete(vxIntRange(0, 2)) {
		case 0:
			e = &ast.ErrWrapExpr{X: &ast.CallExpr{Fun: a}, Tok: token.QUESTION, Default: vxBin(vxBinOp(), b, c)}
		case 1:
			e = vxBin(vxBinOp(), &ast.ErrWrapExpr{X: &ast.CallExpr{Fun: a}, Tok: token.QUESTION, Default: b}, c)
		default:
			e = &ast.CallExpr{Fun: vxID("f"), Args: []ast.Expr{&ast.LambdaExpr{Lhs: []*ast.Ident{vxID("x")}, Rhs: []ast.Expr{vxBin(vxBinOp(), vxID("x"), b)}}, c}}
		}
	case 9: // command-style call whose first argument needs parentheses
		op1, op2 := vxBinOp(), vxBinOp()
		st = &ast.ExprStmt{X: &ast.CallExpr{Fun: vxID("echo"), Args: []ast.Expr{vxBin(op1, vxBin(op2, a, b), c), d}, NoParenEnd: token.Pos(1)}}
	case 10: // range expression and composite operands
		op1 := vxBinOp()
		st = &ast.ForPhraseStmt{ForPhrase: &ast.ForPhrase{Value: vxID("i"), X: &ast.RangeExpr{First: vxBin(op1, a, b), Last: vxBin(vxBinOp(), c, d)}}, Body: &ast.BlockStmt{}}
	case 12: // x?:d and x? as operands of postfix operations and of a slice index
		ew := func() ast.Expr { return &ast.ErrWrapExpr{X: &ast.CallExpr{Fun: a}, Tok: token.QUESTION, Default: b} }
		q := func(x ast.Expr) ast.Expr { return &ast.ErrWrapExpr{X: x, Tok: token.QUESTION} }
		switch vxConcrete(vxIntRange(0, 6)) {
		case 0:
			e = &ast.SelectorExpr{X: ew(), Sel: vxID("f")}
		case 1:
			e = &ast.CallExpr{Fun: ew(), Args: []ast.Expr{c}}
		case 2:
			e = &ast.ErrWrapExpr{X: ew(), Tok: token.NOT}
		case 3:
			e = &ast.IndexExpr{X: ew(), Index: c}
		case 4:
			e = &ast.SliceExpr{X: a, Low: q(&ast.CallExpr{Fun: b}), High: c}
		case 5:
			e = &ast.SliceExpr{X: a, Low: vxBin(vxBinOp(), d, q(&ast.CallExpr{Fun: b})), High: c}
		default:
			e = &ast.SliceExpr{X: a, Low: c, High: q(&ast.CallExpr{Fun: b})}
		}
	case 13: // a lambda as an operand
		lam := &ast.LambdaExpr{Lhs: []*ast.Ident{vxID("x")}, Rhs: []ast.Expr{b}}
		switch vxConcrete(vxIntRange(0, 2)) {
		case 0:
			e = vxBin(vxBinOp(), lam, c)
		case 1:
			e = vxBin(vxBinOp(), c, lam)
		default:
			e = &ast.CallExpr{Fun: &ast.LambdaExpr2{Lhs: []*ast.Ident{vxID("x")}, Body: &ast.BlockStmt{}}, Args: []ast.Expr{c}}
		}
	case 14: // command-style calls where the command syntax does not apply (open known findings)
		if vxParam("KF_CMDSTYLE") == 1 {
			vxReach("command-style-in-expression")
			return
		}
		cmd := func(args ...ast.Expr) ast.Expr {
			return &ast.CallExpr{Fun: vxID("f"), Args: args, NoParenEnd: token.Pos(1)}
		}
		switch vxConcrete(vxIntRange(0, 2)) {
		case 0:
			e = vxBin(vxBinOp(), cmd(a), b)
		case 1:
			e = &ast.CallExpr{Fun: vxID("g"), Args: []ast.Expr{cmd(a), b}}
		default:
			st = &ast.ExprStmt{X: cmd(vxUn(vxUnOp(), vxUn(vxUnOp(), a)))}
		}
	case 11: // three levels
		op1, op2, op3 := vxBinOp(), vxBinOp(), vxBinOp()
		e = vxBin(op1, a, vxBin(op2, b, vxBin(op3, c, d)))
	}
	var buf bytes.Buffer
	var want string
	var err error
	if e != nil {
		want = vxSig(e)
		err = Fprint(&buf, token.NewFileSet(), e)
	} else {
		want = vxSig(st)
		err = Fprint(&buf, token.NewFileSet(), st)
	}
	vxAssert(err == nil, "the printer fails on a well-formed synthesized tree")
	if err != nil {
		return
	}
	text := buf.String()
	vxNote("printed", text)
	src := text + "\n"
	if e != nil {
		src = "x := " + text + "\n"
	}
	f, perr := parser.ParseFile(token.NewFileSet(), "a.xgo", src, 0)
	vxAssert(perr == nil, "the printed form of a synthesized tree does not parse")
	if perr != nil {
		return
	}
	// locate the statement: the script's entry function holds it
	var got ast.Node
	for _, dcl := range f.Decls {
		if fd, ok := dcl.(*ast.FuncDecl); ok && fd.Shadow && fd.Body != nil && len(fd.Body.List) == 1 {
			got = fd.Body.List[0]
		}
	}
	vxAssert(got != nil, "the printed form is not one statement")
	if got == nil {
		return
	}
	if e != nil {
		as, ok := got.(*ast.AssignStmt)
		vxAssert(ok && len(as.Rhs) == 1, "the printed form is not one expression")
		if !ok || len(as.Rhs) != 1 {
			return
		}
		got = as.Rhs[0]
	}
	vxAssert(vxSig(got) == want, "the printed form parses back to a different tree (missing parentheses or blanks)")
}
