package PKG

// C41: closing a fake connection unblocks pending I/O.
//
// One writer (W writes of symbolic bytes), one reader (R reads) and one closer
// run concurrently on a connection made by the real NewConn over harness
// reader/writer ends; the engine's scheduler explores the interleavings at
// every channel / select / mutex operation. Observed: what reached the
// underlying writer, every Read/Write result, and whether anything is still
// blocked once Close has returned.

import (
	"io"
	"sync"
)

// vxPipeEnd: underlying reader (delivers a fixed byte stream, one byte per Read, then
// blocks until closed) and underlying writer (records what it receives).
type vxSrc struct {
	data     []byte
	off      int
	closed   chan struct{}
	mu       sync.Mutex
	isClosed bool
}

func (s *vxSrc) Read(p []byte) (int, error) {
	if s.off < len(s.data) && len(p) > 0 {
		p[0] = s.data[s.off]
		s.off++
		return 1, nil
	}
	<-s.closed // blocks until Close, like a real connection with no more data
	return 0, io.EOF
}

func (s *vxSrc) Close() error {
	// safe for concurrent use, like the Close of a real connection
	s.mu.Lock()
	if !s.isClosed {
		s.isClosed = true
		close(s.closed)
	}
	s.mu.Unlock()
	return nil
}

type vxDst struct {
	got    []byte
	from   []*byte // identity of the buffer each received byte came from
	closed bool
}

func (d *vxDst) Write(p []byte) (int, error) {
	for i := range p {
		d.got = append(d.got, p[i])
		d.from = append(d.from, &p[i])
	}
	return len(p), nil
}

func (d *vxDst) Close() error { d.closed = true; return nil }

func VxC41() {
	W := vxParam("W")
	R := vxParam("R")
	vxSchedReset() // native: follow the schedule of the counter-example being replayed, if any
	src := &vxSrc{data: []byte{'x', 'y'}, closed: make(chan struct{})}
	dst := &vxDst{}
	c := NewConn("fake", src, dst)

	wbytes := make([]byte, W)
	for i := range wbytes {
		wbytes[i] = vxByte()
	}
	wn := make([]int, W)
	werr := make([]bool, W)
	wdone := make([]bool, W)
	rn := make([]int, R)
	rb := make([]byte, R)
	reof := make([]bool, R)
	rdone := make([]bool, R)
	closeReturned := false
	startedAfterClose := make([]bool, W+R)

	go func() { // writer
		for i := 0; i < W; i++ {
			startedAfterClose[i] = closeReturned
			n, err := c.Write(wbytes[i : i+1])
			wn[i], werr[i], wdone[i] = n, err != nil, true
			if err != nil {
				vxAssertEOF(err)
			}
		}
	}()
	go func() { // reader
		for i := 0; i < R; i++ {
			startedAfterClose[W+i] = closeReturned
			buf := make([]byte, 1)
			n, err := c.Read(buf)
			rn[i], rb[i], reof[i], rdone[i] = n, buf[0], err != nil, true
			if err != nil {
				vxAssertEOF(err)
			}
		}
	}()
	if vxParam("CLOSE") >= 1 {
		go func() { // closer
			c.Close()
			closeReturned = true
		}()
	}
	closeReturned2 := vxParam("CLOSE") < 2
	if vxParam("CLOSE") == 2 {
		go func() { // a second, concurrent closer
			c.Close()
			closeReturned2 = true
		}()
	}
	vxQuiesce()

	// data written through the connection arrives in order and unmodified: what the underlying
	// writer received is, in order, the data of the successful writes plus possibly that of writes
	// that were pending when Close came (those may report EOF although their data got through)
	k := 0
	for i := 0; i < W; i++ {
		delivered := k < len(dst.got) && k < len(dst.from) && dst.from[k] == &wbytes[i]
		if wdone[i] && !werr[i] {
			vxAssert(wn[i] == 1, "successful Write reports a wrong count")
			vxAssert(delivered, "data of a successful Write did not arrive (or arrived out of order)")
		}
		if delivered {
			vxAssert(dst.got[k] == wbytes[i], "data written through the connection arrives modified")
			k++
		}
	}
	vxAssert(k == len(dst.got), "the underlying writer received bytes that no Write sent, or out of order")
	// reads deliver the source bytes in order
	j := 0
	for i := 0; i < R; i++ {
		if rdone[i] && !reof[i] {
			vxAssert(rn[i] == 1 && j < len(src.data) && rb[i] == src.data[j], "Read delivers bytes out of order or modified")
			j++
		}
	}
	if vxParam("CLOSE") >= 1 {
		vxAssert(closeReturned && closeReturned2, "Close did not return")
		// every Read or Write pending or started after Close returns (with end of file)
		for i := 0; i < W; i++ {
			vxAssert(wdone[i], "a Write is still blocked after Close returned")
			if startedAfterClose[i] {
				vxAssert(werr[i], "a Write started after Close did not fail with EOF")
			}
		}
		for i := 0; i < R; i++ {
			vxAssert(rdone[i], "a Read is still blocked after Close returned")
			if startedAfterClose[W+i] {
				vxAssert(reof[i], "a Read started after Close did not fail with EOF")
			}
		}
		vxAssert(dst.closed, "Close did not close the underlying writer")
	}
}

func vxAssertEOF(err error) {
	vxAssert(err == io.EOF, "pending I/O failed with an error other than EOF")
}
