package PKG

// C37: Go -> XGo -> Go conversion of declaration trees loses nothing the property names.
//
// A Go source (a concrete declaration context around a window of up to N symbolic bytes; and the
// repository's own .go files as a concrete corpus) is parsed by GOROOT's go/parser (executed by the
// engine), converted by the real fromgo.ASTFile and back by the real togo.ASTFile. The declarations that
// come back must have the same headers: names, receivers, type parameters, parameter and result types,
// type definitions, constant and variable values - compared through signatures generated at check time
// from go/ast's struct definitions (node kinds, operator and keyword tokens, identifier names, literal
// values, channel directions, child structure). Function bodies and closure bodies are dropped by the
// conversion by design and are not compared; positions and comments are not compared.

import (
	goast "go/ast"
	goparser "go/parser"
	gotoken "go/token"

	"github.com/goplus/xgo/ast/fromgo"
)

var vxC37Ctx = [][2]string{
	{"package p\n\n", "\n"},
	{"package p\n\nfunc f(", ")\n"},
	{"package p\n\nfunc (r *T) m(a int, b ...string) (x, y int", ") {\n}\n"},
	{"package p\n\nfunc f(a, b int", " {\n\treturn\n}\n"},
	{"package p\n\ntype T ", "\n"},
	{"package p\n\ntype T = ", "\n"},
	{"package p\n\ntype T struct {\n\tA int `json:\"a\"`\n\t", "\n}\n"},
	{"package p\n\ntype I interface {\n\tM(a int) string\n\t", "\n}\n"},
	{"package p\n\ntype C interface {\n\t~int | ", "\n}\n"},
	{"package p\n\ntype G[P any", "] struct{ v P }\n"},
	{"package p\n\nfunc F[T any, U ", "](a T) (r U) { return }\n"},
	{"package p\n\nvar x = F[int", "](1)\n"},
	{"package p\n\nvar x = ", "\n"},
	{"package p\n\nvar x = a", "b\n"},
	{"package p\n\nvar x = a ", " b\n"},
	{"package p\n\nvar x = 1", "\n"},
	{"package p\n\nvar x, y ", " = 1, 2\n"},
	{"package p\n\nconst (\n\ta = iota\n\tb", "\n)\n"},
	{"package p\n\nvar x = s[1", "]\n"},
	{"package p\n\nvar x = f(a", ")\n"},
	{"package p\n\nvar x ", "chan int\n"},
	{"package p\n\nvar x chan", " int\n"},
	{"package p\n\nvar x [", "]int\n"},
	{"package p\n\nvar x = [...]int{1", "}\n"},
	{"package p\n\nvar x = map[string]int{\"a\": 1", "}\n"},
	{"package p\n\nvar x = y.(", ")\n"},
	{"package p\n\nvar x = func(a int) ", "{ return }\n"},
	{"package p\n\nvar x = (", ")\n"},
	{"package p\n\nvar x = T{A: ", "}\n"},
	{"package p\n\nimport ", "\"os\"\n"},
	{"package p\n\nimport (\n\t\"os\"\n\t", "\n)\n"},
	{"package p\n\nvar x = -", "y\n"},
	// embedded fields (with tags), embedded interfaces, fields of function type
	{"package p\n\ntype T struct {\n\tBase ", "\n}\n"},
	{"package p\n\ntype T struct {\n\t*Other `yaml:\"o\"`", "\n\tio.Reader `json:\"r\"`\n}\n"},
	{"package p\n\ntype T struct {\n\tio.Reader", "\n}\n"},
	{"package p\n\ntype I interface {\n\tio.Reader\n\t", "\n}\n"},
	{"package p\n\ntype T struct {\n\tf func(a int", ") string\n}\n"},
	{"package p\n\ntype T struct {\n\ta, b int ", "\n}\n"},
	{"package p\n\nfunc f(int, ", "string) (bool, error) {\n\treturn false, nil\n}\n"},
	{"package p\n\nvar x = struct{ A int ", "}{1}\n"},
}

// vxHdrSig: signature of a go/ast tree without function and closure bodies.
func vxHdrSig(n goast.Node) string {
	s := "(" + vxGoKind(n) + ":" + vxGoLabel(n)
	for _, c := range vxGoChildren(n) {
		switch c := c.(type) {
		case *goast.CommentGroup, *goast.Comment:
			continue
		case *goast.BlockStmt:
			switch n.(type) {
			case *goast.FuncDecl, *goast.FuncLit:
				_ = c
				continue // dropped by the conversion by design
			}
		}
		s += vxHdrSig(c)
	}
	return s + ")"
}

func vxC37RoundTrip(src []byte) {
	fset := gotoken.NewFileSet()
	f, err := goparser.ParseFile(fset, "a.go", src, goparser.SkipObjectResolution)
	if err != nil {
		vxReach("go-rejects")
		return // not a Go file
	}
	vxReach("go-accepts")
	xf := fromgo.ASTFile(f, 0)
	back := ASTFile(xf, 0)
	vxAssert(back != nil && back.Name != nil && back.Name.Name == f.Name.Name, "the package name is lost")
	vxAssert(len(back.Decls) == len(f.Decls), "the number of declarations changes in the Go -> XGo -> Go round trip")
	for i := range f.Decls {
		if i < len(back.Decls) {
			vxAssert(vxHdrSig(back.Decls[i]) == vxHdrSig(f.Decls[i]), "a declaration header changes in the Go -> XGo -> Go round trip")
		}
	}
}

func VxC37() {
	N := vxParam("N")
	n := vxIntRange(0, N)
	win := vxBytes(n)
	for _, b := range win {
		vxAssume(b < 0x80)
	}
	c := vxC37Ctx[vxParam("P")]
	src := append(append([]byte(c[0]), win...), []byte(c[1])...)
	vxNote("src", src)
	vxC37RoundTrip(src)
}

func VxC37Corpus() {
	i := vxConcrete(vxIntRange(0, len(vxCorpus)-1))
	vxNote("file", vxCorpusNames[i])
	vxC37RoundTrip([]byte(vxCorpus[i]))
}
