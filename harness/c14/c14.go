package PKG

// C14: valid Go files parse to the same syntax tree as with go/parser.
//
// The same bytes (a concrete, typable Go context around a window of up to N symbolic
// bytes; and the repository's own .go files as a concrete corpus) go through the real XGo
// parser and GOROOT's go/parser. When go/parser accepts, the XGo parser must accept and the
// two trees must have the same shape, identifiers, literals and operators (compared through
// signatures generated at check time from the struct definitions of both ast packages).
// The premise "and go/types type-checks" is evaluated natively in the replay: a
// counter-example whose source is not well typed does not reproduce and is not reported.

import (
	goast "go/ast"
	"go/importer"
	goparser "go/parser"
	gotoken "go/token"
	"go/types"

	"github.com/goplus/xgo/ast"
	"github.com/goplus/xgo/token"
)

var vxC14Ctx = [][2]string{
	{"package p\n\nvar x = 1", "1\n"},
	{"package p\n\nfunc f(a, b int) int {\n\treturn a", "b\n}\n"},
	{"package p\n\nfunc f(a []int, i int) int {\n\treturn a[i", "]\n}\n"},
	{"package p\n\nfunc f(a, b int) {\n\tx := a\n\tx ", " b\n\t_ = x\n}\n"},
	{"package p\n\nfunc f(a int) {\n\tfor i := 0; i < a; i", " {\n\t}\n}\n"},
	{"package p\n\ntype T struct {\n\tA int", "\n}\n"},
	{"package p\n\nfunc f(c chan int) {\n\tc <- 1", "\n}\n"},
	{"package p\n\nfunc f(a int) int {\n\tswitch a {\n\tcase 1", ":\n\t\treturn 2\n\t}\n\treturn 0\n}\n"},
	{"package p\n\nfunc f(a ...int) {\n\tf(a", ")\n}\n"},
	{"package p\n\nvar s = \"a", "\"\n"},
	{"package p\n\nvar g = func(x int) int { return x ", " }\n"},
	{"package p\n\nfunc f(a bool) bool {\n\treturn !", "a\n}\n"},
	{"package p\n\nimport \"fmt\"\n\nfunc f() {\n\tfmt.Println(1", ")\n}\n"},
	{"package p\n\nfunc f() {\nL:\n\tfor {\n\t\tbreak ", "\n\t}\n}\n"},
	{"package p\n\nfunc f(a, b int) bool {\n\treturn a ", " b\n}\n"},
	{"package p\n\nvar a = []int{1, 2", "}\n"},
	{"package p\n\nfunc f(m map[string]int) int {\n\treturn m[\"k\"]", "\n}\n"},
	{"package p\n\nfunc f(p *int) int {\n\treturn ", "p\n}\n"},
	{"package p\n\nconst c = 1 ", " 2\n"},
	{"package p\n\nfunc f(x interface{}) int {\n\treturn x.(int)", "\n}\n"},
	// type positions: parameters, results, fields, function types, interface methods, closures
	{"package p\n\nfunc f(c ", "chan int) {\n}\n"},
	{"package p\n\nfunc f(a, b ", "chan int) {\n}\n"},
	{"package p\n\nfunc f() (c ", "chan int) {\n\treturn nil\n}\n"},
	{"package p\n\nfunc f() ", "chan int {\n\treturn nil\n}\n"},
	{"package p\n\ntype T struct {\n\tc ", "chan int\n}\n"},
	{"package p\n\nvar f func(c ", "chan int)\n"},
	{"package p\n\ntype I interface {\n\tM(c ", "chan int)\n}\n"},
	{"package p\n\nvar g = func(c ", "chan int) {}\n"},
	{"package p\n\nfunc f(a ", "int) {\n}\n"},
	{"package p\n\nvar x ", "int\n"},
	{"package p\n\nvar x chan", " int\n"},
	{"package p\n\nfunc (t ", "T) m() {\n}\n\ntype T int\n"},
	{"package p\n\nvar x = map[string]", "int{}\n"},
	// statements
	{"package p\n\nfunc f(c chan int) int {\n\tselect {\n\tcase v := <-c:\n\t\treturn v", "\n\tdefault:\n\t}\n\treturn 0\n}\n"},
	{"package p\n\nfunc f(a int) {\n\tif a > 0 {\n\t} else", " {\n\t}\n}\n"},
	{"package p\n\nfunc f(x interface{}) {\n\tswitch y := x.(type) {\n\tcase int", ":\n\t\t_ = y\n\t}\n}\n"},
	{"package p\n\nfunc f() {\n\tdefer func() {", "}()\n}\n"},
	{"package p\n\nfunc f(a []int) {\n\tfor i, v := range a", " {\n\t\t_, _ = i, v\n\t}\n}\n"},
	{"package p\n\nfunc f() {\n\tgoto L\nL", ":\n}\n"},
	{"package p\n\ntype T struct{ A int ", "}\n"},
	// one-line blocks ending in a branch statement
	{"package p\n\nfunc f(a bool) {\n\tfor {\n\t\tif a { break", " }\n\t}\n}\n"},
	{"package p\n\nfunc f(a bool) {\n\tfor {\n\t\tif a { continue", " }\n\t}\n}\n"},
	{"package p\n\nfunc f(a bool) {\n\tif a { return", " }\n}\n"},
	{"package p\n\nfunc f(a int) {\n\tswitch a { case 1: fallthrough", "; default: }\n}\n"},
}

func vxXSig(n ast.Node) string {
	s := "(" + vxKind(n) + ":" + vxLabel(n)
	for _, c := range vxChildren(n) {
		switch c.(type) {
		case *ast.CommentGroup, *ast.Comment:
			continue
		}
		s += vxXSig(c)
	}
	return s + ")"
}

func vxGSig(n goast.Node) string {
	s := "(" + vxGoKind(n) + ":" + vxGoLabel(n)
	for _, c := range vxGoChildren(n) {
		switch c.(type) {
		case *goast.CommentGroup, *goast.Comment:
			continue
		}
		s += vxGSig(c)
	}
	return s + ")"
}

// vxTypeChecks (native only): the premise "go/types type-checks".
func vxTypeChecks(src []byte) bool {
	fset := gotoken.NewFileSet()
	f, err := goparser.ParseFile(fset, "a.go", src, 0)
	if err != nil {
		return false
	}
	conf := types.Config{Importer: importer.Default(), Error: func(error) {}}
	_, err = conf.Check("p", fset, []*goast.File{f}, nil)
	return err == nil
}

func vxC14Compare(src []byte, name string, typeCheck bool) {
	gfset := gotoken.NewFileSet()
	gf, gerr := goparser.ParseFile(gfset, name, src, goparser.SkipObjectResolution)
	if gerr != nil {
		vxReach("go-rejects")
		return // not a Go file
	}
	if typeCheck && !vxSymbolic() && !vxTypeChecks(src) {
		return // premise of the property: only well-typed Go files
	}
	if vxParam("KF_GENERICS") == 1 && vxHasTypeParams(gf) {
		vxReach("generic-declaration")
		return // open known finding: type parameters are not parsed by the XGo parser
	}
	vxReach("go-accepts")
	fset := token.NewFileSet()
	xf, xerr := ParseFile(fset, name, src, 0)
	vxAssert(xerr == nil, "go/parser accepts the file but the XGo parser rejects it")
	if xerr != nil {
		return
	}
	vxAssert(vxXSig(xf) == vxGSig(gf), "the XGo syntax tree differs from the go/parser tree (shape, identifiers, literals or operators)")
}

func VxC14() {
	N := vxParam("N")
	n := vxIntRange(0, N)
	win := vxBytes(n)
	for _, b := range win {
		vxAssume(b < 0x80 && b != '#' && b != '$' && b != '?' && b != '@' && b != '~')
		if vxParam("KF_BANG") == 1 {
			vxAssume(b != '!')
		}
	}
	c := vxC14Ctx[vxParam("P")]
	src := append(append([]byte(c[0]), win...), []byte(c[1])...)
	vxNote("src", src)
	if vxParam("KF_BANG") == 1 && vxBangBeforeNewline(src) {
		vxReach("bang-before-newline")
		return // open known finding (see C16): the XGo scanner inserts a semicolon after '!' at the end of a line
	}
	vxC14Compare(src, "a.go", true)
}

// vxBangBeforeNewline: a '!' that is the last token on its line.
func vxBangBeforeNewline(src []byte) bool {
	for i := 0; i < len(src); i++ {
		if src[i] != '!' {
			continue
		}
		j := i + 1
		for j < len(src) && (src[j] == ' ' || src[j] == '\t' || src[j] == '\r') {
			j++
		}
		if j < len(src) && src[j] == '\n' {
			return true
		}
		if j+1 < len(src) && src[j] == '/' && (src[j+1] == '/' || src[j+1] == '*') {
			return true // a comment after '!' ends the line as well
		}
	}
	return false
}

func VxC14Corpus() {
	i := vxConcrete(vxIntRange(0, len(vxCorpus)-1))
	vxNote("file", vxCorpusNames[i])
	// corpus files belong to the repository, which builds: they are well typed in their packages
	vxC14Compare([]byte(vxCorpus[i]), "a.go", false)
}

func vxHasTypeParams(f *goast.File) bool {
	for _, d := range f.Decls {
		switch d := d.(type) {
		case *goast.FuncDecl:
			if d.Type != nil && d.Type.TypeParams != nil {
				return true
			}
		case *goast.GenDecl:
			for _, sp := range d.Specs {
				if ts, ok := sp.(*goast.TypeSpec); ok && ts.TypeParams != nil {
					return true
				}
			}
		}
	}
	return false
}
