package PKG

// C26: xgo fmt never loses a file at any crash point and keeps its mode.
//
// Symbolic run: the real writeFileWithBackup executes over a file-system
// model (os.CreateTemp/Remove/Rename/Chmod/Stat and (*os.File) methods are
// replaced by the vx* functions below). The crash point is one symbolic
// integer (the world stops just before the crashAt-th mutating call) and
// every call's failure is a symbolic flag. The assertion is about the
// modelled directory at the crash instant / at return.
//
// Native run (replay): the same scenario is executed against the real file
// system in a child process under `strace -e inject=<syscall>:signal=KILL`
// (crash) or `:error=EIO` (failing call), and the real directory is inspected.

import (
	"errors"
	"io/fs"
	"os"
	"os/exec"
	"path/filepath"
	"strconv"
	"time"
)

const (
	vxOrig    = 1
	vxNew     = 2
	vxPartial = 3
	vxEmpty   = 4
)

type vxMFile struct {
	content int
	mode    int
}

type vxCrash struct{}

var (
	vxFiles   map[string]*vxMFile
	vxHandles map[*os.File]string
	vxOps     []string // names of mutating calls made so far
	vxCrashAt int
	vxFailAt  int // index of the mutating call that fails (-1: none)
	vxCurTmp  string
)

// vxMut is called at the start of every mutating model call: it realises the crash point
// and tells whether this call fails.
func vxMut(name string) (fail bool) {
	if len(vxOps) == vxCrashAt {
		panic(vxCrash{})
	}
	fail = len(vxOps) == vxFailAt
	vxOps = append(vxOps, name)
	return
}

var vxErrIO = errors.New("injected I/O error")

func vxCreateTemp(dir, pattern string) (*os.File, error) {
	if vxMut("openat") {
		return nil, vxErrIO
	}
	name := dir + pattern + "123456"
	vxFiles[name] = &vxMFile{content: vxEmpty, mode: 0600} // os.CreateTemp creates with mode 0600
	f := new(os.File)
	vxHandles[f] = name
	vxCurTmp = name
	return f, nil
}

func vxFileName(f *os.File) string { return vxHandles[f] }

func vxFileWrite(f *os.File, b []byte) (int, error) {
	mf := vxFiles[vxHandles[f]]
	if vxMut("write") {
		if mf != nil {
			mf.content = vxPartial
		}
		return 0, vxErrIO
	}
	if mf != nil {
		mf.content = vxNew
	}
	return len(b), nil
}

func vxFileClose(f *os.File) error { return nil }

func vxFileChmod(f *os.File, mode fs.FileMode) error {
	if vxMut("fchmod") {
		return vxErrIO
	}
	if mf := vxFiles[vxHandles[f]]; mf != nil {
		mf.mode = int(mode.Perm())
	}
	return nil
}

func vxChmod(name string, mode fs.FileMode) error {
	if vxMut("fchmodat") {
		return vxErrIO
	}
	mf := vxFiles[name]
	if mf == nil {
		return fs.ErrNotExist
	}
	mf.mode = int(mode.Perm())
	return nil
}

func vxRemove(name string) error {
	if vxMut("unlinkat") {
		return vxErrIO
	}
	if vxFiles[name] == nil {
		return fs.ErrNotExist
	}
	delete(vxFiles, name)
	return nil
}

func vxRename(oldpath, newpath string) error {
	if vxMut("renameat") {
		return vxErrIO
	}
	mf := vxFiles[oldpath]
	if mf == nil {
		return fs.ErrNotExist
	}
	vxFiles[newpath] = mf // atomic replace
	delete(vxFiles, oldpath)
	return nil
}

type vxStatInfo struct {
	name string
	mode fs.FileMode
}

func (s vxStatInfo) Name() string       { return s.name }
func (s vxStatInfo) Size() int64        { return 0 }
func (s vxStatInfo) Mode() fs.FileMode  { return s.mode }
func (s vxStatInfo) ModTime() time.Time { return time.Time{} }
func (s vxStatInfo) IsDir() bool        { return false }
func (s vxStatInfo) Sys() any           { return nil }

func vxStat(name string) (fs.FileInfo, error) {
	mf := vxFiles[name]
	if mf == nil {
		return nil, fs.ErrNotExist
	}
	return vxStatInfo{name, fs.FileMode(mf.mode)}, nil
}

var vxModes = []int{0644, 0600, 0755, 0664, 0400}

const vxPathName = "d/a.xgo"

func vxCheckPath(when string) {
	mf := vxFiles[vxPathName]
	vxAssert(mf != nil, "the file's path holds no file "+when)
	if mf != nil {
		vxAssert(mf.content == vxOrig || mf.content == vxNew, "the file's path holds incomplete content "+when)
	}
}

func VxC26() {
	origMode := vxModes[vxConcrete(vxIntRange(0, len(vxModes)-1))]
	crashAt := vxConcrete(vxIntRange(0, 8)) // 8 = beyond the last call: no crash
	failAt := vxConcrete(vxIntRange(-1, 7))
	vxNote("origMode", origMode)
	vxNote("crashAt", crashAt)
	vxNote("failAt", failAt)
	if !vxSymbolic() {
		vxC26Native(origMode, crashAt, failAt)
		return
	}
	vxFiles = map[string]*vxMFile{vxPathName: {content: vxOrig, mode: origMode}}
	vxHandles = map[*os.File]string{}
	vxOps = nil
	vxCrashAt, vxFailAt = crashAt, failAt
	crashed := false
	var err error
	func() {
		defer func() {
			if p := recover(); p != nil {
				if _, ok := p.(vxCrash); ok {
					crashed = true
					return
				}
				panic(p)
			}
		}()
		err = writeFileWithBackup(vxPathName, []byte("new"))
	}()
	vxAssume(crashed == (crashAt < len(vxOps)+1) || true)
	nops := len(vxOps)
	// scenarios whose crash/fault index lies beyond the calls actually made are duplicates
	if crashAt < 8 && !crashed {
		return
	}
	if failAt >= nops && failAt >= 0 {
		return
	}
	switch {
	case crashed:
		vxReach("crash")
		vxCheckPath("at a crash point")
	case err != nil:
		vxReach("error-return")
		vxCheckPath("after a failed run")
	default:
		vxReach("success")
		vxCheckPath("after a successful run")
		mf := vxFiles[vxPathName]
		if mf != nil {
			vxAssert(mf.content == vxNew, "successful run did not install the formatted content")
			vxAssert(mf.mode == origMode, "successful run changed the file's permission bits")
		}
	}
}

// ---- native side ------------------------------------------------------

// VxC26Child: runs the real function on $VX_C26_PATH (child process of the native replay).
func VxC26Child() {
	p := os.Getenv("VX_C26_PATH")
	if p == "" {
		return
	}
	err := writeFileWithBackup(p, []byte("new content\n"))
	if err != nil {
		os.Stdout.WriteString("VX-CHILD: error " + err.Error() + "\n")
	} else {
		os.Stdout.WriteString("VX-CHILD: ok\n")
	}
}

func vxC26Native(origMode, crashAt, failAt int) {
	dir, err := os.MkdirTemp("", "vxc26")
	if err != nil {
		panic(err)
	}
	defer os.RemoveAll(dir)
	path := filepath.Join(dir, "a.xgo")
	const orig = "orig content\n"
	if err := os.WriteFile(path, []byte(orig), 0644); err != nil {
		panic(err)
	}
	os.Chmod(path, fs.FileMode(origMode))
	// first a dry run on a copy under strace to learn the sequence of mutating syscalls
	seq := vxC26Syscalls(dir, origMode)
	args := []string{"-f", "-qq", "-o", "/dev/null"}
	inject := ""
	idx := crashAt
	kind := "signal=KILL"
	if crashAt >= 8 {
		idx = failAt
		kind = "error=EIO"
	}
	if idx >= 0 && idx < len(seq) {
		// occurrence number of this syscall name among the mutating calls so far
		occ := 0
		for k := 0; k <= idx; k++ {
			if seq[k] == seq[idx] {
				occ++
			}
		}
		inject = seq[idx] + ":" + kind + ":when=" + strconv.Itoa(occ)
		args = append(args, "-e", "trace="+seq[idx], "-e", "inject="+inject)
	} else if idx >= len(seq) && (crashAt < 8 || failAt >= 0) {
		return // index beyond the calls made: duplicate scenario
	}
	args = append(args, os.Args[0], "-test.run", "^TestVxReplay$")
	cmd := exec.Command("strace", args...)
	cmd.Env = append(os.Environ(), "VX_HARNESS=VxC26Child", "VX_C26_PATH="+path, "VX_REPLAY=;")
	out, _ := cmd.CombinedOutput()
	ok := vxContains(string(out), "VX-CHILD: ok")
	vxNote("inject", inject)
	b, rerr := os.ReadFile(path)
	when := "after the run"
	if crashAt < 8 {
		when = "at a crash point"
	}
	vxAssert(rerr == nil, "the file's path holds no file "+when)
	vxAssert(string(b) == orig || string(b) == "new content\n", "the file's path holds incomplete content "+when)
	if ok && inject == "" {
		vxAssert(string(b) == "new content\n", "successful run did not install the formatted content")
		fi, _ := os.Stat(path)
		vxAssert(int(fi.Mode().Perm()) == origMode, "successful run changed the file's permission bits")
	}
}

// vxC26Syscalls learns, from an strace dry run on a scratch copy, the order of the
// file-mutating system calls writeFileWithBackup makes on files under dir.
func vxC26Syscalls(dir string, origMode int) []string {
	scratch := filepath.Join(dir, "dry")
	os.Mkdir(scratch, 0755)
	p := filepath.Join(scratch, "a.xgo")
	os.WriteFile(p, []byte("orig content\n"), fs.FileMode(origMode))
	logf := filepath.Join(dir, "strace.log")
	cmd := exec.Command("strace", "-f", "-qq", "-o", logf, "-e", "trace=openat,write,fchmod,fchmodat,chmod,unlinkat,unlink,renameat,renameat2,rename",
		os.Args[0], "-test.run", "^TestVxReplay$")
	cmd.Env = append(os.Environ(), "VX_HARNESS=VxC26Child", "VX_C26_PATH="+p, "VX_REPLAY=;")
	cmd.CombinedOutput()
	b, _ := os.ReadFile(logf)
	var seq []string
	tmpfd := ""
	line := ""
	for i := 0; i <= len(b); i++ {
		if i < len(b) && b[i] != '\n' {
			line += string(b[i])
			continue
		}
		l := line
		line = ""
		// strip "pid " prefix
		k := 0
		for k < len(l) && (l[k] >= '0' && l[k] <= '9' || l[k] == ' ') {
			k++
		}
		l = l[k:]
		name := ""
		for j := 0; j < len(l) && l[j] != '('; j++ {
			name += string(l[j])
		}
		inScratch := false
		for j := 0; j+len(scratch) <= len(l); j++ {
			if l[j:j+len(scratch)] == scratch {
				inScratch = true
			}
		}
		switch name {
		case "openat":
			if inScratch {
				creat := false
				for j := 0; j+7 <= len(l); j++ {
					if l[j:j+7] == "O_CREAT" {
						creat = true
					}
				}
				if creat {
					seq = append(seq, "openat")
					// remember the returned fd
					for j := len(l) - 1; j >= 0; j-- {
						if l[j] == ' ' {
							tmpfd = l[j+1:]
							break
						}
					}
				}
			}
		case "write", "fchmod":
			if tmpfd != "" && len(l) > len(name)+1+len(tmpfd) && l[len(name)+1:len(name)+1+len(tmpfd)] == tmpfd && (l[len(name)+1+len(tmpfd)] == ',') {
				seq = append(seq, name)
			}
		case "fchmodat", "chmod", "unlinkat", "unlink", "renameat", "renameat2", "rename":
			if inScratch {
				seq = append(seq, name)
			}
		}
	}
	return seq
}

func vxContains(s, sub string) bool {
	for i := 0; i+len(sub) <= len(s); i++ {
		if s[i:i+len(sub)] == sub {
			return true
		}
	}
	return false
}
