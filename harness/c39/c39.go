package PKG

// C39: every JSON-RPC call completes exactly once with its own answer.
//
// One real Connection (newConnection, Call, Await, Close, readIncoming, acceptRequest, handleAsync,
// processResult, write, updateInFlight) runs over a message-level wire owned by the harness: the Framer
// hands Message values through channels (encoding is C38's subject, not used here). Concurrent goroutines:
// NC clients (Call + Await), a peer (answers the calls it receives - correctly, with a duplicate, with an
// unknown ID, or disconnects), optionally an incoming call handled by a Handler (synchronously or through
// ErrAsyncResponse + Respond), optionally a closer (Close). The engine's scheduler explores the
// interleavings at every mutex / channel / select operation; the peer's behaviour is a symbolic choice.
// At quiescence: every Await has returned, with an error or with the response carrying its own ID; no
// "retire called twice" / "non-idle when done" / "incoming count already zero" panic; every incoming call
// was answered at most once; Close returned only after the handlers finished.

import (
	"context"
	"errors"
	"io"
)

type vxWire struct {
	in     chan Message  // peer -> connection
	sent   chan Message  // connection -> peer (what the Writer was given)
	closed chan struct{} // closed when the connection closes the stream
	out    []Message
}

type vxRWC struct{ w *vxWire }

func (r vxRWC) Read(p []byte) (int, error)  { return 0, io.EOF }
func (r vxRWC) Write(p []byte) (int, error) { return len(p), nil }
func (r vxRWC) Close() error {
	select {
	case <-r.w.closed:
	default:
		close(r.w.closed)
	}
	return nil
}

type vxFramer struct{ w *vxWire }

func (f vxFramer) Reader(io.Reader) Reader { return vxReader{f.w} }
func (f vxFramer) Writer(io.Writer) Writer { return vxWriter{f.w} }

type vxReader struct{ w *vxWire }

func (r vxReader) Read(ctx context.Context) (Message, int64, error) {
	select {
	case m, ok := <-r.w.in:
		if !ok {
			return nil, 0, io.EOF // the peer disconnected
		}
		return m, 1, nil
	case <-r.w.closed:
		return nil, 0, io.ErrClosedPipe
	}
}

type vxWriter struct{ w *vxWire }

func (w vxWriter) Write(ctx context.Context, m Message) (int64, error) {
	select {
	case <-w.w.closed:
		return 0, io.ErrClosedPipe
	default:
	}
	w.w.out = append(w.w.out, m)
	select {
	case w.w.sent <- m:
	case <-w.w.closed:
	}
	return 1, nil
}

var vxErrHandled = errors.New("handled")

func VxC39() {
	NC := vxParam("NC")         // clients
	withClose := vxParam("CLOSE") == 1
	incoming := vxParam("INC")  // 0: none, 1: one incoming call handled synchronously, 2: through ErrAsyncResponse + Respond, 3: as 2 and the peer sends a second call with the same ID while the first is in flight
	peerMode := vxConcrete(vxIntRange(0, vxParam("PEER"))) // 0 answer, 1 answer twice, 2 unknown ID first, 3 disconnect instead
	vxSchedReset()

	w := &vxWire{in: make(chan Message), sent: make(chan Message, 4), closed: make(chan struct{})}
	handlerStarted, handlerDone := 0, 0
	internalErrs := 0
	var conn *Connection
	asyncCh := make(chan ID, 2)
	binder := BinderFunc(func(ctx context.Context, c *Connection) ConnectionOptions {
		return ConnectionOptions{
			Framer: vxFramer{w},
			Handler: HandlerFunc(func(ctx context.Context, req *Request) (any, error) {
				handlerStarted++
				defer func() { handlerDone++ }()
				if incoming >= 2 && req.IsCall() {
					asyncCh <- req.ID
					return nil, ErrAsyncResponse
				}
				return nil, vxErrHandled
			}),
			OnInternalError: func(error) { internalErrs++ },
		}
	})
	ctx := context.Background()
	conn = newConnection(ctx, vxRWC{w}, binder, nil)

	awaited := make([]bool, NC)
	awaitErr := make([]error, NC)
	ownID := make([]bool, NC)
	for i := 0; i < NC; i++ {
		i := i
		go func() {
			ac := conn.Call(ctx, "m", nil)
			err := ac.Await(ctx, nil)
			awaitErr[i] = err
			ownID[i] = ac.response != nil && ac.response.ID == ac.id
			awaited[i] = true
		}()
	}
	// the peer: answers every call it receives according to peerMode
	go func() {
		if incoming > 0 {
			select {
			case w.in <- &Request{ID: StringID("in"), Method: "ping"}:
			case <-w.closed:
				return
			}
		}
		if incoming == 3 {
			// the peer reuses the ID of its call while that call is still in flight
			select {
			case w.in <- &Request{ID: StringID("in"), Method: "ping"}:
			case <-w.closed:
				return
			}
		}
		for n := 0; n < NC; n++ {
			var m Message
			select {
			case m = <-w.sent:
			case <-w.closed:
				return
			}
			req, isReq := m.(*Request)
			if !isReq || !req.IsCall() {
				n-- // a response to the incoming call: not ours to answer
				continue
			}
			var msgs []Message
			switch peerMode {
			case 0:
				msgs = []Message{&Response{ID: req.ID}}
			case 1:
				msgs = []Message{&Response{ID: req.ID}, &Response{ID: req.ID}}
			case 2:
				msgs = []Message{&Response{ID: Int64ID(99)}, &Response{ID: req.ID}}
			default:
				close(w.in)
				return
			}
			for _, r := range msgs {
				select {
				case w.in <- r:
				case <-w.closed:
					return
				}
			}
		}
	}()
	responded := false
	if incoming >= 2 {
		go func() { // the asynchronous responder
			for id := range asyncCh { // every call the handler deferred gets its asynchronous response
				conn.Respond(id, nil, vxErrHandled)
				responded = true
			}
		}()
	}
	closeReturned := false
	handlersAtClose := 0
	if withClose {
		go func() {
			conn.Close()
			handlersAtClose = handlerStarted - handlerDone
			closeReturned = true
		}()
	}
	vxQuiesce()

	for i := 0; i < NC; i++ {
		vxAssert(awaited[i], "an Await is still blocked although the peer answered, disconnected or the connection was closed")
		if awaited[i] && awaitErr[i] == nil {
			vxAssert(ownID[i], "Await returned without error but not with the response carrying its own ID")
		}
	}
	// every incoming call is answered at most once
	nresp := 0
	for _, m := range w.out {
		if r, ok := m.(*Response); ok && r.ID == StringID("in") {
			nresp++
		}
	}
	sentIn := 0 // incoming calls the peer sent (a reused ID is a new call once the first one was answered)
	if incoming > 0 {
		sentIn = 1
	}
	if incoming == 3 {
		sentIn = 2
	}
	vxAssert(nresp <= sentIn, "an incoming call was answered more than once")
	if withClose {
		vxAssert(closeReturned, "Close did not return although nothing is in flight any more")
		vxAssert(handlersAtClose == 0, "Close returned while a handler was still running")
	}
	_ = responded
	_ = internalErrs
}
