package PKG

// C19 (formatting preserves the syntax tree), C20 (idempotent), C21 (keeps every comment, in
// order). Source = concrete context around a window of up to N symbolic bytes; when the real
// parser accepts it, the real formatter (format.Source: parser, import sorting, printer,
// tabwriter) runs on it and its output is parsed / formatted / scanned again.
// Parameter WHICH selects the property: 19, 20 or 21.

import (
	"github.com/goplus/xgo/ast"
	"github.com/goplus/xgo/parser"
	"github.com/goplus/xgo/scanner"
	"github.com/goplus/xgo/token"
)

var vxC19Ctx = [][2]string{
	{"", ""},
	{"x := ", "\n"},
	{"func f() {\n\t", "\n}\n"},
	{"x := a", "b\n"},
	{"x := a ", " b\n"},
	{"x := f(", ")\n"},
	{"echo ", "\n"},
	{"x := [", "]\n"},
	{"x := [a", " for a in b]\n"},
	{"for i in 0:10", " {\n}\n"},
	{"x := a", " // c\ny := 2\n"},
	{"x := 1 //", "\ny := 2\n"},
	{"x := 1 /*", "*/ + 2\n"},
	{"x := 1\n#", "\ny := 2\n"},
	{"// doc\nfunc f(a int", ") {\n}\n"},
	{"x := a?:", "\n"},
	{"x := f(y =>", ")\n"},
	{"type T struct {\n\tA int", "\n}\n"},
	{"var (\n\ta = 1", "\n\tb = 2 // two\n)\n"},
	{"import (\n\t\"b\"", "\n\t\"a\"\n)\n"},
	{"x := \"${a", "}\"\n"},
	{"if x ", " {\n}\n"},
	{"x := <-", "c\n"},
	{"x := a - -", "b\n"},
	{"x := 1", "px\n"},
	{"switch x {\ncase 1", ":\n\ty()\n}\n"},
	// depth / spacing decisions (redundant parentheses, nested operands, several arguments)
	{"x := f(", "(a + b)) * c, d)\n"},
	{"x := v[", "(a + b)) * c]\n"},
	{"p, q := (", "(a + b)) * c, d\n"},
	{"if (", "(a + b)) * c > 1 {\n}\n"},
	{"x := f((a ", " b) * c, d)\n"},
	{"x := a + b", " * c - d/e\n"},
	{"x := f(a+b", "c*d, e)\n"},
	// layout decisions that depend on source lines
	{"x := f(a,", "b)\n"},
	{"x := []int{1,", "2}\n"},
	{"x := {\"a\": 1,", "\"b\": 2}\n"},
	{"func f() { ", " }\n"},
	{"x := func() { ", " }\n"},
	{"x := a +", "b*c\n"},
	{"var a = 1", "var b = 2\n"},
	// comments at unusual places
	{"func g(a, b int) int { /* first */ return a*b + a /* second */ ", "}\n"},
	{"func g(a, b int) int { /* first */ return a*b + a /* the quick brown fox jumps over the lazy dog the quick brown fox jumps over the lazy dog and keeps running over the hills */ ", "}\n"},
	{"x := func(a int) int { /* one */ return a /* two */ ", "}\n"},
	{"x := f(y => /* in lambda */ y", ")\n"},
	{"echo a, /* in command */", " b\n"},
	{"x := [a /* in comprehension */ for a in b", "]\n"},
	{"y := [c\"a\", //", "\n\tc\"b\"]\n"},
	{"x := 1\n", "\n// at the end"},
	{"x := f(a, // after a\n\tb", ")\n"},
	{"if x { // then\n\ty()\n} else { // otherwise", "\n\tz()\n}\n"},
	{"type T struct {\n\t// lead\n\tA int // line", "\n\tB int\n}\n"},
	{"x := a?:/* dflt */", "1\n"},
	// one-line type bodies
	{"type T struct{ A int", " }\n"},
	{"type T struct{ A int `json:\"a\"`", " }\n"},
	{"x := struct{ *B `a`", " }{}\n"},
	{"type I interface{ M()", " }\n"},
	{"x := []struct{ A, B int }{{1,", " 2}}\n"},
	{"var f func(a int, b ...string)", "\n"},
	// declaration groups
	{"type (\n\tA = int\n\tB ", "string\n)\n"},
	{"type (\n\tA ", "int\n\tB = string\n)\n"},
	{"const (\n\ta = iota\n\tb", "\n\tc\n)\n"},
	{"var a, b ", "= 1, 2\n"},
	{"func (p *T) m(a int", ") {\n}\n"},
	{"type T ", "int\n"},
}

// one-line function literals and declarations whose size is around the one-line limit (100), written with
// surplus blanks in front of "func": the window extends the string literal by 0..N bytes
func init() {
	for k := 60; k <= 84; k += 3 {
		lit := ""
		for i := 0; i < k; i++ {
			lit += "x"
		}
		vxC19Ctx = append(vxC19Ctx, [2]string{"f   :=   func(a, b int) string { return \"" + lit, "\" }\necho f\n"})
	}
	for k := 62; k <= 80; k += 6 {
		lit := ""
		for i := 0; i < k; i++ {
			lit += "x"
		}
		vxC19Ctx = append(vxC19Ctx, [2]string{"func g() {\n        f := func(a, b int) string { return \"" + lit, "\" }\n        echo f\n}\n"})
	}
}


func vxFmtSig(n ast.Node) string {
	s := "(" + vxKind(n) + ":" + vxLabel(n)
	var imports []string
	for _, c := range vxChildren(n) {
		switch c.(type) {
		case *ast.CommentGroup, *ast.Comment:
			continue // comment placement is not part of the tree comparison
		case *ast.EmptyStmt:
			continue // redundant semicolons are dropped by the printer (as in gofmt)
		}
		if fd, isFD := c.(*ast.FuncDecl); isFD && fd.Shadow && vxOnlyEmpty(fd.Body) {
			continue // a script consisting of redundant semicolons only has no entry function after formatting
		}
		if ft, isFT := n.(*ast.FuncType); isFT && c == ast.Node(ft.Results) && ft.Results != nil && len(ft.Results.List) == 0 {
			continue // an empty result list '()' is not printed (as in gofmt)
		}
		if pe, isPE := c.(*ast.ParenExpr); isPE {
			// ((e)) is printed as (e) (as in gofmt): nested parentheses count once
			for {
				inner, ok := pe.X.(*ast.ParenExpr)
				if !ok {
					break
				}
				pe = inner
			}
			c = pe
		}
		if _, isImp := c.(*ast.ImportSpec); isImp {
			imports = append(imports, vxFmtSig(c)) // order of imports within a group may change
			continue
		}
		s += vxFmtSig(c)
	}
	// imports as a sorted multiset
	for i := 1; i < len(imports); i++ {
		for j := i; j > 0 && imports[j] < imports[j-1]; j-- {
			imports[j], imports[j-1] = imports[j-1], imports[j]
		}
	}
	for _, im := range imports {
		s += im
	}
	return s + ")"
}

func vxComments(src []byte) (out []string) {
	fset := token.NewFileSet()
	file := fset.AddFile("a.xgo", -1, len(src))
	var s scanner.Scanner
	s.Init(file, src, nil, scanner.ScanComments)
	for i := 0; i < 4*len(src)+8; i++ {
		_, tok, lit := s.Scan()
		if tok == token.EOF {
			break
		}
		if tok == token.COMMENT {
			// the formatter trims trailing white space of comment lines and re-indents the lines of a
			// multi-line block comment (go/printer heritage: bytes <= ' ' count as blank there): compare
			// the lines without their leading and trailing blanks
			lit = vxNormComment(lit)
			out = append(out, lit)
		}
	}
	return
}

func VxC19() {
	N := vxParam("N")
	n := vxIntRange(0, N)
	win := vxBytes(n)
	for _, b := range win {
		vxAssume(b < 0x80 && b != '\r')
	}
	c := vxC19Ctx[vxParam("P")]
	src := append(append([]byte(c[0]), win...), []byte(c[1])...)
	vxNote("src", src)
	fset := token.NewFileSet()
	f, err := parser.ParseFile(fset, "a.xgo", src, parser.ParseComments)
	if err != nil {
		return // not a syntactically valid source
	}
	vxReach("valid")
	if vxParam("KF_DECLSEMI") == 1 && vxDeclAfterSemi(f) {
		vxReach("declaration-after-bare-semicolon")
		return // open known finding: see known_findings.json C19-decl-after-bare-semicolon
	}
	if vxParam("WHICH") == 20 && vxIdemKnown(fset, f) {
		vxReach("known-non-idempotent-shape")
		return // open known findings of C20 (classes assumed away when the KF_* parameters are 1)
	}
	out, ferr := Source(src, false, "a.xgo")
	vxAssert(ferr == nil, "formatting a syntactically valid source fails")
	if ferr != nil {
		return
	}
	vxObserve("out", string(out))
	switch vxParam("WHICH") {
	case 19:
		fset2 := token.NewFileSet()
		f2, perr := parser.ParseFile(fset2, "a.xgo", out, parser.ParseComments)
		vxAssert(perr == nil, "the formatter's output does not parse")
		if perr == nil {
			vxAssert(vxFmtSig(f2) == vxFmtSig(f), "the formatted source parses to a different tree")
		}
	case 20:
		out2, ferr2 := Source(out, false, "a.xgo")
		vxAssert(ferr2 == nil, "formatting the formatted output fails")
		if ferr2 == nil {
			vxAssert(string(out2) == string(out), "formatting is not idempotent")
		}
	case 21:
		before, after := vxComments(src), vxComments(out)
		vxAssert(len(before) == len(after), "the formatter lost or duplicated a comment")
		for i := range before {
			if i < len(after) {
				vxAssert(before[i] == after[i], "the formatter changed a comment's text or the order of comments")
			}
		}
	}
}

func vxOnlyEmpty(b *ast.BlockStmt) bool {
	if b == nil {
		return true
	}
	for _, st := range b.List {
		if _, ok := st.(*ast.EmptyStmt); !ok {
			return false
		}
	}
	return true
}

func vxNormComment(lit string) string {
	var out []byte
	i := 0
	for i <= len(lit) {
		j := i
		for j < len(lit) && lit[j] != '\n' {
			j++
		}
		a, b := i, j
		for a < b && lit[a] <= ' ' {
			a++
		}
		for b > a && lit[b-1] <= ' ' {
			b--
		}
		out = append(out, lit[a:b]...)
		out = append(out, '\n')
		i = j + 1
	}
	return string(out)
}

// vxDeclAfterSemi: the script's entry function starts with empty statements followed by a declaration
// statement ('var a = 1;;var b = 2': after a bare ';' the parser is in statement mode, so 'var b' is a
// local declaration of the entry function).
func vxDeclAfterSemi(f *ast.File) bool {
	for _, d := range f.Decls {
		fd, ok := d.(*ast.FuncDecl)
		if !ok || !fd.Shadow || fd.Body == nil {
			continue
		}
		sawEmpty := false
		for _, st := range fd.Body.List {
			if _, isEmpty := st.(*ast.EmptyStmt); isEmpty {
				sawEmpty = true
				continue
			}
			_, isDecl := st.(*ast.DeclStmt)
			return sawEmpty && isDecl
		}
	}
	return false
}

// vxIdemKnown: the source belongs to one of the open known-finding classes of C20.
//
//	KF_ONELINE_EMPTY  a function body written on one line that contains an empty statement ('{ ; }'):
//	                  printed as '{  }' first and '{}' next (same behaviour in gofmt)
//	KF_PAREN_LINES    redundant nested parentheses whose opening parentheses are on different lines
//	KF_ENV_LINES      '$' and the name of an environment expression on different lines
func vxIdemKnown(fset *token.FileSet, f *ast.File) bool {
	found := false
	line := func(p token.Pos) int { return fset.Position(p).Line }
	ast.Inspect(f, func(n ast.Node) bool {
		switch x := n.(type) {
		case *ast.BlockStmt:
			if vxParam("KF_ONELINE_EMPTY") == 1 && x.Lbrace.IsValid() && x.Rbrace.IsValid() && line(x.Lbrace) == line(x.Rbrace) {
				for _, st := range x.List {
					if _, ok := st.(*ast.EmptyStmt); ok {
						found = true
					}
				}
			}
		case *ast.ParenExpr:
			if inner, ok := x.X.(*ast.ParenExpr); ok && vxParam("KF_PAREN_LINES") == 1 && line(x.Lparen) != line(inner.Lparen) {
				found = true
			}
		case *ast.EnvExpr:
			if vxParam("KF_ENV_LINES") == 1 && x.Name != nil && line(x.TokPos) != line(x.Name.Pos()) {
				found = true
			}
		}
		return !found
	})
	return found
}
