package PKG

// C31: TPL grammar text parses with the documented operator precedence
// unary (* + ?) > ++ > % > sequence > |, parentheses overriding it, and a
// missing factor is an error rather than an empty rule.
//
// The rule body is a sequence of up to NTOK tokens whose kinds are symbolic
// selectors over the grammar-expression alphabet; it is rendered to text and
// parsed by the real tpl/parser (with the real tpl/scanner). The reference
// is a precedence parser over the same token kinds written in the harness.

import (
	"github.com/goplus/xgo/tpl/ast"
	"github.com/goplus/xgo/tpl/token"
)

const (
	vxtIdent = iota
	vxtString
	vxtStar
	vxtPlus
	vxtQuest
	vxtRem
	vxtInc
	vxtOr
	vxtLParen
	vxtRParen
	vxtKinds
)

var vxtText = []string{"a", "\"x\"", "*", "+", "?", "%", "++", "|", "(", ")"}

// ---- reference parser over token kinds --------------------------------

type vxRefP struct {
	toks []int
	i    int
	ok   bool
}

func (p *vxRefP) peek() int {
	if p.i < len(p.toks) {
		return p.toks[p.i]
	}
	return -1
}

func (p *vxRefP) factor() (string, bool) {
	switch k := p.peek(); k {
	case vxtIdent, vxtString:
		p.i++
		return vxtText[k], true
	case vxtStar, vxtPlus, vxtQuest:
		p.i++
		x, ok := p.factor()
		if !ok {
			p.ok = false // unary operator without operand
			return "", true
		}
		return "(" + vxtText[k] + " " + x + ")", true
	case vxtLParen:
		p.i++
		x := p.expr()
		if p.peek() != vxtRParen {
			p.ok = false
		} else {
			p.i++
		}
		return x, true
	}
	return "", false
}

func (p *vxRefP) binary(op int, sub func() (string, bool)) (string, bool) {
	x, ok := sub()
	if !ok {
		return "", false
	}
	for p.peek() == op {
		p.i++
		y, ok := sub()
		if !ok {
			p.ok = false // missing right operand
			return x, true
		}
		x = "(" + vxtText[op] + " " + x + " " + y + ")"
	}
	return x, true
}

func (p *vxRefP) term2() (string, bool) { return p.binary(vxtInc, p.factor) }
func (p *vxRefP) term() (string, bool)  { return p.binary(vxtRem, p.term2) }

func (p *vxRefP) termList() string {
	var items []string
	for p.ok {
		t, ok := p.term()
		if !ok {
			break
		}
		items = append(items, t)
	}
	switch len(items) {
	case 0:
		p.ok = false // missing factor
		return "(seq)"
	case 1:
		return items[0]
	}
	s := "(seq"
	for _, it := range items {
		s += " " + it
	}
	return s + ")"
}

func (p *vxRefP) expr() string {
	first := p.termList()
	if p.peek() != vxtOr {
		return first
	}
	s := "(| " + first
	for p.peek() == vxtOr {
		p.i++
		s += " " + p.termList()
	}
	return s + ")"
}

// ---- canonical form of the real tree ----------------------------------

func vxCanon(e ast.Expr) string {
	switch e := e.(type) {
	case nil:
		return "<nil>"
	case *ast.Ident:
		return e.Name
	case *ast.BasicLit:
		return e.Value
	case *ast.UnaryExpr:
		if e.X == nil {
			return "(" + e.Op.String() + " <nil>)"
		}
		return "(" + e.Op.String() + " " + vxCanon(e.X) + ")"
	case *ast.BinaryExpr:
		return "(" + e.Op.String() + " " + vxCanon(e.X) + " " + vxCanon(e.Y) + ")"
	case *ast.Sequence:
		s := "(seq"
		for _, it := range e.Items {
			s += " " + vxCanon(it)
		}
		return s + ")"
	case *ast.Choice:
		s := "(|"
		for _, it := range e.Options {
			s += " " + vxCanon(it)
		}
		return s + ")"
	}
	return "<?>"
}

func VxC31() {
	n := vxConcrete(vxIntRange(0, vxParam("NTOK")))
	kinds := make([]int, n)
	text := "r ="
	for i := range kinds {
		kinds[i] = vxConcrete(vxIntRange(0, vxtKinds-1))
		text += " " + vxtText[kinds[i]]
	}
	text += "\n"
	vxNote("grammar", text)

	ref := &vxRefP{toks: kinds, ok: true}
	want := ref.expr()
	refOK := ref.ok && ref.i == len(kinds)

	fset := token.NewFileSet()
	f, err := ParseFile(fset, "", text, nil)
	vxObserve("err", err != nil)
	if refOK {
		vxReach("well-formed")
		vxAssert(err == nil, "well-formed grammar expression rejected")
		vxAssert(len(f.Decls) == 1, "expected exactly one rule")
		r := f.Decls[0].(*ast.Rule)
		got := vxCanon(r.Expr)
		vxObserve("tree", got)
		vxAssert(got == want, "tree differs from the documented precedence")
	} else {
		vxReach("ill-formed")
		vxAssert(err != nil, "ill-formed grammar expression (missing factor / unbalanced) accepted without an error")
	}
}
