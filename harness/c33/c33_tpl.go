package PKG

// C33 (TPL half): token spellings round-trip through the TPL scanner and
// String/Len agree with the spelling, for a symbolic token value over the
// whole uint range.

import (
	"github.com/goplus/xgo/tpl/token"
)

func VxC33TPL() {
	t := token.Token(uint(vxInt()))
	vxNote("tok", int(t))
	spelling := t.String() // must not panic for any value
	n := t.Len()           // must not panic for any value
	// operator tokens: single characters above ' ' with a spelling, and the multi-character range
	isOp := false
	if t > ' ' && t < 0x80 && len(spelling) == 1 {
		isOp = true
	}
	token.ForEach(0, func(tok token.Token, lit string) int {
		if tok == t {
			isOp = true
			vxAssert(lit == spelling, "ForEach spelling differs from String")
		}
		return 0
	})
	if !isOp {
		return
	}
	vxReach("spelled")
	vxAssert(n == len(spelling), "Len differs from the length of the spelling")
	src := []byte(spelling)
	fset := token.NewFileSet()
	file := fset.AddFile("a.tpl", -1, len(src))
	var s Scanner
	nerr := 0
	s.Init(file, src, func(pos token.Position, msg string) { nerr++ }, 0)
	tk := s.Scan()
	vxAssert(tk.Tok == t, "scanning a token's spelling yields a different token")
	vxAssert(int(tk.Pos)-file.Base() == 0, "token does not start at offset 0")
	vxAssert(s.offset == len(src), "token does not cover its whole spelling")
	vxAssert(nerr == 0, "scanning a token's spelling reports an error")
	tk2 := s.Scan()
	if tk2.Tok == token.SEMICOLON && tk2.Lit == "\n" {
		tk2 = s.Scan()
	}
	vxAssert(tk2.Tok == token.EOF, "spelling scans to more than one token")
}
