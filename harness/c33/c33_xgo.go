package PKG

// C33 (XGo half): token spellings round-trip through the scanner, for a
// symbolic token value over the whole int range.

import (
	"github.com/goplus/xgo/token"
)

func VxC33XGo() {
	t := token.Token(vxInt())
	vxNote("tok", int(t))
	// every binary operator with non-zero precedence is reported as an operator
	if t.Precedence() > 0 {
		vxReach("binary-operator")
		vxAssert(t.IsOperator(), "token with non-zero precedence is not reported as an operator")
	}
	if !(t.IsOperator() || t.IsKeyword()) {
		return
	}
	if vxParam("KF_TILDE") == 1 {
		vxAssume(t != token.TILDE)
	}
	spelling := t.String() // forks over the token table
	vxReach("spelled")
	src := []byte(spelling)
	fset := token.NewFileSet()
	file := fset.AddFile("a.xgo", -1, len(src))
	var s Scanner
	nerr := 0
	s.Init(file, src, func(pos token.Position, msg string) { nerr++ }, 0)
	pos, tok, lit := s.Scan()
	vxAssert(tok == t, "scanning a token's spelling yields a different token")
	vxAssert(int(pos)-file.Base() == 0, "token does not start at offset 0")
	vxAssert(s.offset == len(src), "token does not cover its whole spelling")
	vxAssert(nerr == 0, "scanning a token's spelling reports an error")
	if t.IsKeyword() {
		vxAssert(lit == spelling, "keyword literal differs from its spelling")
	}
	_, tok2, lit2 := s.Scan()
	if tok2 == token.SEMICOLON && lit2 == "\n" {
		_, tok2, _ = s.Scan()
	}
	vxAssert(tok2 == token.EOF, "spelling scans to more than one token")
}
