package PKG

// C34: directory parsing selects and classifies exactly the right files.
//
// The FileSystem is a harness type: ReadDir returns K entries whose names
// are (concrete prefix chosen by a symbolic selector) + (up to L symbolic
// bytes), with symbolic IsDir; file contents are tiny concrete sources so
// the real ParseFSFile / go/parser run on them. The class-kind
// configuration is nil (defaultClassKind) or a custom extension rule.
// The reference is the property's statement as a function of
// (name, isDir, class-kind).

import (
	"errors"
	"io/fs"
	"time"

	"github.com/goplus/xgo/token"
)

type vxEntry struct {
	name  string
	isDir bool
}

func (e vxEntry) Name() string               { return e.name }
func (e vxEntry) IsDir() bool                { return e.isDir }
func (e vxEntry) Type() fs.FileMode          { return 0 }
func (e vxEntry) Info() (fs.FileInfo, error) { return nil, errors.New("no info") }

type vxFS struct {
	entries []fs.DirEntry
	reads   []string
}

func (f *vxFS) ReadDir(dirname string) ([]fs.DirEntry, error) { return f.entries, nil }
func (f *vxFS) ReadFile(filename string) ([]byte, error) {
	f.reads = append(f.reads, filename)
	return []byte("package foo\n"), nil
}
func (f *vxFS) Join(elem ...string) string {
	s := ""
	for i, e := range elem {
		if i > 0 {
			s += "/"
		}
		s += e
	}
	return s
}
func (f *vxFS) Base(filename string) string     { return filename }
func (f *vxFS) Abs(path string) (string, error) { return path, nil }

var _ = time.Now

var vxC34Pre = []string{"", "_", "gop_autogen", "main", "a", "gop_autogen_x"}

// reference: final-dot extension of the name ("" if none)
func vxExt(name string) string {
	for i := len(name) - 1; i >= 0; i-- {
		if name[i] == '/' {
			return ""
		}
		if name[i] == '.' {
			return name[i:]
		}
	}
	return ""
}

func vxHasPrefix(s, p string) bool {
	return len(s) >= len(p) && s[:len(p)] == p
}

// custom class-kind rule used when CK=1: "*.tx" are classes, "main.tx" is the project
func vxCustomClassKind(fname string) (isProj bool, ok bool) {
	if vxExt(fname) == ".tx" {
		return fname == "main.tx", true
	}
	return false, false
}

// reference class-kind for the default configuration (doc of defaultClassKind / spx, gsh, gmx)
func vxRefDefaultClassKind(fname string) (isProj bool, ok bool) {
	switch vxExt(fname) {
	case ".spx":
		return fname == "main.spx", true
	case ".gsh", ".gmx":
		return true, true
	}
	return false, false
}

type vxExpect struct {
	include                        bool
	goFile                         bool
	isProj, isClass, isNormalGox bool
}

func vxRefClassify(name string, isDir bool, custom bool, goAsXGo bool) (e vxExpect) {
	if isDir {
		return
	}
	ext := vxExt(name)
	ck := vxRefDefaultClassKind
	if custom {
		ck = vxCustomClassKind
	}
	switch ext {
	case ".xgo", ".gop":
		e.include = true
	case ".go":
		if vxHasPrefix(name, "gop_autogen") {
			return
		}
		e.include = true
		e.goFile = !goAsXGo
	case ".gox":
		e.include = true
		if isProj, isClass := ck(name); isClass {
			e.isProj, e.isClass = isProj, true
		} else {
			e.isClass, e.isNormalGox = true, true
		}
	default:
		isProj, isClass := ck(name)
		if !isClass {
			return
		}
		e.include = true
		e.isProj, e.isClass = isProj, true
	}
	if vxHasPrefix(name, "_") {
		e = vxExpect{}
	}
	return
}

func VxC34() {
	K := vxParam("K")
	L := vxParam("L")
	k := vxConcrete(vxIntRange(0, K))
	fsys := &vxFS{}
	names := make([]string, k)
	dirs := make([]bool, k)
	for i := 0; i < k; i++ {
		pre := vxC34Pre[vxConcrete(vxIntRange(0, len(vxC34Pre)-1))]
		n := vxIntRange(0, L)
		tail := vxString(n)
		for j := 0; j < len(tail); j++ {
			vxAssume(tail[j] != '/' && tail[j] != 0 && tail[j] < 0x80)
		}
		names[i] = pre + tail
		dirs[i] = vxBool()
		vxNote("name"+string(rune('0'+i)), names[i])
		// distinct names, as in a real directory
		for j := 0; j < i; j++ {
			vxAssume(names[j] != names[i])
		}
		vxAssume(len(names[i]) > 0)
		fsys.entries = append(fsys.entries, vxEntry{names[i], dirs[i]})
	}
	custom := vxParam("CK") == 1
	goAsXGo := vxBool()
	conf := Config{}
	if custom {
		conf.ClassKind = vxCustomClassKind
	}
	if goAsXGo {
		conf.Mode |= ParseGoAsGoPlus
	}
	fset := token.NewFileSet()
	pkgs, _ := ParseFSDir(fset, fsys, "d", conf)

	// every expected file is present, under its package, with the right flags
	expected := 0
	for i := 0; i < k; i++ {
		e := vxRefClassify(names[i], dirs[i], custom, goAsXGo)
		fname := "d/" + names[i]
		foundX, foundGo := false, false
		for _, pkg := range pkgs {
			if f, ok := pkg.Files[fname]; ok {
				foundX = true
				vxAssert(f.Name != nil && f.Name.Name == pkg.Name, "file grouped under a package with a different name")
				vxAssert(f.IsProj == e.isProj, "IsProj differs from the class-kind / extension rules")
				vxAssert(f.IsClass == e.isClass, "IsClass differs from the class-kind / extension rules")
				vxAssert(f.IsNormalGox == e.isNormalGox, "IsNormalGox differs from the extension rules")
			}
			if g, ok := pkg.GoFiles[fname]; ok {
				foundGo = true
				vxAssert(g.Name.Name == pkg.Name, "Go file grouped under a package with a different name")
			}
		}
		if e.include {
			expected++
			vxReach("included")
			if e.goFile {
				vxAssert(foundGo && !foundX, "Go file not parsed as a Go file")
			} else {
				vxAssert(foundX && !foundGo, "file with a recognised extension is missing")
			}
		} else {
			vxReach("excluded")
			vxAssert(!foundX && !foundGo, "file that must be skipped was included")
		}
	}
	total := 0
	for _, pkg := range pkgs {
		total += len(pkg.Files) + len(pkg.GoFiles)
	}
	vxAssert(total == expected, "directory parsing returned files that are not in the listing")
}
