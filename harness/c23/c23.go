package PKG

// C23: import sorting keeps the import set.
//
// An import block is assembled from up to K specs: name (none, a, b, _, .)
// and trailing comment chosen by symbolic selectors, the path "p<x>" with a
// symbolic byte x, and a symbolic separator (newline or blank line = group
// break). The real format.Source (parser -> ast.SortImports -> printer)
// formats it; the output is parsed again and the import sets are compared.

import (
	"strconv"

	"github.com/goplus/xgo/ast"
	"github.com/goplus/xgo/parser"
	"github.com/goplus/xgo/token"
)

var vxC23Names = []string{"", "a ", "_ ", ". "}

type vxImp struct {
	name, path string
	group      int
}

func vxImports(fset *token.FileSet, f *ast.File) []vxImp {
	var out []vxImp
	group := 0
	for _, d := range f.Decls {
		gd, ok := d.(*ast.GenDecl)
		if !ok || gd.Tok != token.IMPORT {
			continue
		}
		for j, s := range gd.Specs {
			is := s.(*ast.ImportSpec)
			if j > 0 && fset.Position(is.Pos()).Line > 1+fset.Position(gd.Specs[j-1].End()).Line {
				group++
			}
			p, _ := strconv.Unquote(is.Path.Value)
			n := ""
			if is.Name != nil {
				n = is.Name.Name
			}
			out = append(out, vxImp{n, p, group})
		}
		group++
	}
	return out
}

func vxCount(l []vxImp, x vxImp) int {
	c := 0
	for _, y := range l {
		if y.name == x.name && y.path == x.path {
			c++
		}
	}
	return c
}

func VxC23() {
	K := vxParam("K")
	k := vxConcrete(vxIntRange(1, K))
	// LEAD: what surrounds the block - 0 a Go-style file, 1 a single-line import declaration in front of
	// the block, 2 one behind it, 3 an XGo script (no package clause) with a single-line import in front
	lead := vxConcrete(vxIntRange(0, vxParam("LEAD")))
	src := "package p\n\n"
	if lead == 3 {
		src = ""
	}
	if lead == 1 || lead == 3 {
		src += "import \"pz\"\n\n"
	}
	src += "import (\n"
	for i := 0; i < k; i++ {
		name := vxC23Names[vxConcrete(vxIntRange(0, len(vxC23Names)-1))]
		x := byte('a' + vxConcrete(vxIntRange(0, 2))) // equal, ordered and duplicate paths all occur
		src += "\t" + name + "\"p" + string([]byte{x}) + "\""
		if vxBool() {
			src += " // c" + string(rune('0'+i))
		}
		src += "\n"
		if i < k-1 && vxBool() {
			src += "\n" // group break
		}
	}
	src += ")\n"
	if lead == 2 {
		src += "\nimport \"pz\"\n"
	}
	if lead == 3 {
		src += "\necho 1\n"
	}
	vxNote("src", src)

	fset1 := token.NewFileSet()
	f1, err := parser.ParseFile(fset1, "a.xgo", src, parser.ParseComments)
	vxAssert(err == nil, "generated import block does not parse")
	in := vxImports(fset1, f1)

	out, err := Source([]byte(src), false)
	vxAssert(err == nil, "format.Source failed on a valid import block")
	if err != nil {
		return
	}
	vxObserve("out", string(out))
	fset2 := token.NewFileSet()
	f2, err := parser.ParseFile(fset2, "a.xgo", out, parser.ParseComments)
	vxAssert(err == nil, "formatted import block does not parse")
	if err != nil {
		return
	}
	res := vxImports(fset2, f2)

	for _, x := range res {
		vxAssert(vxCount(in, x) > 0, "formatting added an import (or separated a name from its path)")
		vxAssert(vxCount(res, x) <= vxCount(in, x), "formatting duplicated an import")
	}
	for _, x := range in {
		vxAssert(vxCount(res, x) > 0, "formatting removed an import that is not an exact duplicate")
	}
	for i := 1; i < len(res); i++ {
		if res[i].group == res[i-1].group {
			vxAssert(res[i-1].path <= res[i].path, "import group not sorted by path after formatting")
		}
	}
	// every comment survives
	for i := 0; i < k; i++ {
		c := "// c" + string(rune('0'+i))
		if vxHas(src, c) {
			vxAssert(vxHas(string(out), c), "formatting lost an import's comment")
		}
	}
}

func vxHas(s, sub string) bool {
	for i := 0; i+len(sub) <= len(s); i++ {
		if s[i:i+len(sub)] == sub {
			return true
		}
	}
	return false
}
