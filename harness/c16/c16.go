package PKG

// C16: the XGo scanner agrees with go/scanner on Go lexemes.
// Both real scanners run on the same bytes (concrete context P + window of
// up to N symbolic bytes); token kind (by spelling), offset and literal of
// every token and the offsets of reported errors are compared until EOF.

import (
	goscanner "go/scanner"
	gotoken "go/token"

	"github.com/goplus/xgo/token"
)

var vxC16Prefixes = []string{
	"", "x ", "x\n", ")", "1", "0x", "0b1", "1e", "1.5e+", "0x1p", "1_", "\"\\", "\"\\u00", "\"\\x", "'\\", "'\\U0010",
	"`a\r", "/*", "/* *", "..", "x /", "<", "&", "=", "-", ">>", "&^", "'", "x\r", "0o", "1.", "0_", "'\\x", "\"\\1",
	"//", "x //", "x /*", "//line ", "/*line :", "return", "x.", "1i",
	"0X", "0B", "0O", "0X1P", "1E", "0x_", "0X_", "1E+",
}

// vxXGoOnly: tokens that only the XGo scanner produces (not Go lexemes).
func vxXGoOnly(tok token.Token) bool {
	switch tok {
	case token.DRARROW, token.SRARROW, token.BIDIARROW, token.UNIT, token.RAT, token.CSTRING, token.PYSTRING,
		token.QUESTION, token.ENV, token.TILDE:
		return true
	}
	return false
}

func VxC16() {
	N := vxParam("N")
	n := vxIntRange(0, N)
	win := vxBytes(n)
	for _, b := range win {
		// bytes that start XGo-only lexemes are not Go lexemes
		vxAssume(b != '#' && b != '$' && b != '?' && b != '@')
		if vxParam("ASCII") == 1 {
			vxAssume(b < 0x80)
		}
		if vxParam("KF_TILDE") == 1 {
			vxAssume(b != '~')
		}
	}
	src := append([]byte(vxC16Prefixes[vxParam("P")]), win...)
	vxNote("src", src)
	scanComments := vxBool()
	if scanComments {
		vxNote("mode", "ScanComments")
	}

	// XGo scanner
	fset := token.NewFileSet()
	file := fset.AddFile("a.go", -1, len(src))
	var xerrs []int
	var s Scanner
	xmode := Mode(0)
	if scanComments {
		xmode = ScanComments
	}
	s.Init(file, src, func(pos token.Position, msg string) { xerrs = append(xerrs, pos.Offset) }, xmode)

	// go/scanner on a copy of the bytes
	src2 := make([]byte, len(src))
	copy(src2, src)
	gfset := gotoken.NewFileSet()
	gfile := gfset.AddFile("a.go", -1, len(src2))
	var gerrs []int
	var g goscanner.Scanner
	gmode := goscanner.Mode(0)
	if scanComments {
		gmode = goscanner.ScanComments
	}
	g.Init(gfile, src2, func(pos gotoken.Position, msg string) { gerrs = append(gerrs, pos.Offset) }, gmode)

	mismatch := ""
	stopped := false
	xgoOnly := false
	prevTok := token.ILLEGAL
	prevParen := 0
	for step := 0; step < 2*len(src)+3; step++ {
		xpos, xtok, xlit := s.Scan()
		gpos, gtok, glit := g.Scan()
		if vxXGoOnly(xtok) || s.unitVal != "" { // (a pending unit: the number is part of an XGo number-with-unit lexeme)
			xgoOnly = true
			break
		}
		xoff := int(xpos) - file.Base()
		goff := int(gpos) - gfile.Base()
		same := xoff == goff && xtok.String() == gtok.String() && xlit == glit
		if !same {
			// classify against the open known-finding classes
			xAuto := xtok == token.SEMICOLON && xlit == "\n"
			gAuto := gtok == gotoken.SEMICOLON && glit == "\n"
			class := "other"
			switch {
			case xAuto && prevTok == token.NOT:
				class = "bang-newline" // XGo sets insertSemi after '!' (needed for expr!)
			case xAuto && prevTok == token.ELLIPSIS && prevParen == 0:
				class = "ellipsis-newline" // XGo sets insertSemi after '...' outside parentheses
			case xtok == token.ILLEGAL && xoff < len(src) && src[xoff] == '~':
				class = "tilde" // '~' has a token and a spelling but the scanner returns ILLEGAL
			case (xAuto && xoff < len(src) && src[xoff] == '/') || (gAuto && xtok == token.COMMENT) || (xAuto && gtok == gotoken.COMMENT):
				class = "autosemi-before-comment" // XGo reports the inserted ';' at the comment, go1.21+ after it
			case xAuto && gAuto && xoff != goff:
				class = "autosemi-before-comment"
			}
			switch {
			case class == "bang-newline" && vxParam("KF_BANG") == 1:
			case class == "ellipsis-newline" && vxParam("KF_ELLIPSIS") == 1:
			case class == "autosemi-before-comment" && vxParam("KF_AUTOSEMI_COMMENT") == 1:
			case class == "tilde" && vxParam("KF_TILDE") == 1:
			default:
				mismatch = "token stream differs from go/scanner (class " + class + ")"
			}
			vxNote("class", class)
			stopped = true
			break
		}
		if xtok == token.EOF {
			vxReach("eof")
			break
		}
		if xtok == token.LPAREN {
			prevParen++
		} else if xtok == token.RPAREN {
			prevParen--
		} else if xtok == token.SEMICOLON {
			prevParen = 0
		}
		if xtok != token.ILLEGAL { // an ILLEGAL token preserves the pending insertSemi of its predecessor
			prevTok = xtok
		}
	}
	if xgoOnly {
		vxReach("xgo-only-lexeme")
		return // not an input composed only of Go lexemes
	}
	if mismatch != "" {
		vxAssert(false, mismatch)
	}
	if stopped {
		vxReach("stopped-at-known-class")
		return // the rest of the two streams was not scanned
	}
	if mismatch == "" && len(xerrs) != len(gerrs) {
		vxAssert(false, "number of reported errors differs from go/scanner")
	}
	if mismatch == "" {
		for k := range xerrs {
			if k < len(gerrs) {
				vxAssert(xerrs[k] == gerrs[k], "error offsets differ from go/scanner")
			}
		}
	}
}
