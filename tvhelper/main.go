// tvhelper compiles XGo sources to Go with the compiler of /repo's current
// working tree (x/build) - the first stage of the translation-validation checks.
//
//	tvhelper file <in.xgo> <out.go>
//	tvhelper dir  <dir with .xgo/.gox files> <out.go>
//	tvhelper gopstyle <in.go> <out.go>   Go source -> x/format.GopstyleSource -> XGo text (written to
//	                                     <out.go>.xgo.txt) -> compiler -> Go
package main

import (
	"fmt"
	"os"

	"github.com/goplus/xgo/x/build"
	xformat "github.com/goplus/xgo/x/format"
)

func main() {
	if len(os.Args) != 4 {
		fmt.Fprintln(os.Stderr, "usage: tvhelper file|dir <in> <out.go>")
		os.Exit(2)
	}
	ctx := build.Default()
	var data []byte
	var err error
	switch os.Args[1] {
	case "file":
		src, e := os.ReadFile(os.Args[2])
		if e != nil {
			fmt.Fprintln(os.Stderr, e)
			os.Exit(1)
		}
		data, err = ctx.BuildFile(os.Args[2], src)
	case "gopstyle":
		src, e := os.ReadFile(os.Args[2])
		if e != nil {
			fmt.Fprintln(os.Stderr, e)
			os.Exit(1)
		}
		styled, e := xformat.GopstyleSource(src, os.Args[2])
		if e != nil {
			fmt.Fprintln(os.Stderr, "compile error: GopstyleSource:", e)
			os.Exit(1)
		}
		os.WriteFile(os.Args[3]+".xgo.txt", styled, 0644)
		data, err = ctx.BuildFile(os.Args[2]+".xgo", styled)
	case "dir":
		data, err = ctx.BuildDir(os.Args[2])
	default:
		fmt.Fprintln(os.Stderr, "unknown mode")
		os.Exit(2)
	}
	if err != nil {
		fmt.Fprintln(os.Stderr, "compile error:", err)
		os.Exit(1)
	}
	if err := os.WriteFile(os.Args[3], data, 0644); err != nil {
		fmt.Fprintln(os.Stderr, err)
		os.Exit(1)
	}
}
