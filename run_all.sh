#!/bin/bash
# usage: run_all.sh [quick|thorough] [ids...]   - runs the registered checks one after the other, prints exit code and wall time
tier=${1:-quick}; shift
cd /verif
ids="$@"
if [ -z "$ids" ]; then ids=$(python3 -c "import json;print(' '.join(c['property_id'] for c in json.load(open('MANIFEST.json'))['checks']))"); fi
for id in $ids; do
  s=$(date +%s)
  timeout ${RUN_TIMEOUT:-7200} ./bin/gosym check $id --tier $tier > work/run_${tier}_$id.log 2>&1; rc=$?
  e=$(date +%s)
  echo "$id tier=$tier exit=$rc wall=$((e-s))s $(grep -a -c '^KNOWN-FINDING' work/run_${tier}_$id.log) known $(grep -a '^INCONCLUSIVE\|^UNCONFIRMED' work/run_${tier}_$id.log | head -1 | cut -c1-120)"
done
