#!/bin/bash
# usage: seedtest.sh <seed dir under /verif/seeded> <check id> [more check ids]
# Applies the seeded patch to /repo, runs the quick check(s), restores /repo. Prints exit codes.
set -u
seed=$1; shift
cd /repo || exit 2
if ! git diff --quiet; then echo "/repo not clean"; exit 2; fi
git apply /verif/seeded/$seed/patch.diff || { echo "patch does not apply"; exit 2; }
for id in "$@"; do
  (cd /verif && timeout 3000 ./bin/gosym check $id > /tmp/seedtest_${seed}_$id.log 2>&1; echo "seed=$seed check=$id exit=$?"; grep -a -m3 "^VIOLATION\|^ENGINE\|^INCONCL" /tmp/seedtest_${seed}_$id.log | cut -c1-300; grep -a -m2 "  harness=" /tmp/seedtest_${seed}_$id.log | cut -c1-400)
done
git -C /repo checkout -- .
