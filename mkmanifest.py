#!/usr/bin/env python3
# Regenerates MANIFEST.json from the table below (claimed checks) and the N/A reasons.
import json
props=[json.loads(l)['id'] for l in open('/verif/properties.jsonl')]
claimed={
 "C35": dict(level="model_checking", ref="6 (C35)",
   text="Bounded symbolic execution of the real ParseAll/ParseOne/isFile/isLocal (go/ssa of the working tree): every list of up to K arguments of up to L arbitrary bytes is covered by solver-decided path conditions; each path's partition/ordering/error obligations are discharged. Bounded, not a proof.",
   note="Trusted: gosym engine (cross-validated natively on sampled path models each run), z3 4.8.12, the harness's reference classification of file/local arguments written from the filepath.Ext documentation. Outside: more than K arguments or arguments longer than L bytes.",
   technique="symbolic execution of go/ssa with SMT (z3) path feasibility and assertion discharge; native replay of counter-examples"),
 "C15": dict(level="model_checking", ref="6 (C15)",
   text="Bounded symbolic execution of the real scanner (Scan, next, scanNumber, scanString, scanComment, findLineEnd, ... from the working tree's go/ssa): every input of <= N bytes scanned to EOF, plus T consecutive Scan calls over a symbolic window placed after 43 concrete contexts from an arbitrary scanner state. Per step: progress measure decreases, offsets ordered and inside the source, token text equals the source bytes, no byte outside a token in comment mode, no panic. Bounded, not a proof.",
   note="Trusted: gosym engine (paths cross-validated natively each run), z3, oracle conventions listed in evidence.assumptions. Outside: tokens longer than context+window; non-ASCII window bytes in the quick tier.",
   technique="symbolic execution of go/ssa with SMT (z3) path feasibility and assertion discharge; native replay of counter-examples"),
 "C16": dict(level="model_checking", ref="6 (C16)",
   text="Differential symbolic execution: the XGo scanner and GOROOT's go/scanner (go1.23.5) both run symbolically on the same bytes (42 concrete contexts + window of <= N symbolic bytes, both comment modes); offsets, kinds by spelling, literals, inserted semicolons and error offsets must agree until EOF. Four genuine divergence classes are recorded as known findings and assumed away by class.",
   note="Trusted: gosym engine, z3, go/scanner of the installed toolchain as the reference. Outside: lexemes longer than context+window, non-ASCII window bytes, streams after the first token of an open known-finding class.",
   technique="differential symbolic execution of two real implementations over go/ssa with SMT (z3); native replay"),
 "C32": dict(level="model_checking", ref="6 (C32)",
   text="Differential symbolic execution of tpl/scanner.Scan and scanner.Scan on the same bytes (41 concrete contexts + window of <= N symbolic bytes, both comment modes): offsets, literals, inserted semicolons and EOF must agree on inputs made of shared lexemes.",
   note="Trusted: gosym engine, z3. Shared-lexeme filter: no keywords, c/py strings, ~, @, **. Outside: lexemes longer than context+window, non-ASCII window bytes.",
   technique="differential symbolic execution of two real implementations over go/ssa with SMT (z3); native replay"),
}
na_default="check not built yet (work in progress)"
na={}
checks=[]
for p in props:
    if p in claimed:
        c=claimed[p]
        checks.append({"property_id":p,"quick_cmd":f"./bin/gosym check {p} --tier quick","thorough_cmd":f"./bin/gosym check {p} --tier thorough",
          "evidence_file":f"/verif/evidence/{p}.json","replay_cmd_template":f"./bin/gosym check {p} --replay {{path}}","engine":"gosym",
          "level_claimed":{"category":c["level"],"text":c["text"],"design_ref":c["ref"]},"level_note":c["note"],"technique":c["technique"]})
m={"version":1,
 "setup_cmd":"cd /verif && ./setup.sh",
 "hooks":{"guard":"verif","enable":"no source hooks: harness files are injected with go/packages Overlay (symbolic run) and go test -overlay (native replay)","baseline_off_cmd":"cd /repo && go test -mod=mod -json -vet=off -count=1 -timeout 25m ./...","source_commits":[],"add_only":True},
 "engines":[{"name":"gosym","path":"/verif/gosym","serves_properties":sorted(claimed),"kind_free_text":"symbolic executor over go/ssa (forking by re-execution, concolic models) with an SMT back end (z3 -in); counter-examples replayed natively"}],
 "checks":checks,
 "not_applicable":[{"property_id":p,"reason":na.get(p,na_default)} for p in props if p not in claimed]}
json.dump(m,open('/verif/MANIFEST.json','w'),indent=1)
print(len(checks),"checks")
