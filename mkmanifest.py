#!/usr/bin/env python3
# Regenerates MANIFEST.json from the table below (claimed checks) and the N/A reasons.
import json
props=[json.loads(l)['id'] for l in open('/verif/properties.jsonl')]
claimed={
 "C35": dict(level="model_checking", ref="6 (C35)",
   text="Bounded symbolic execution of the real ParseAll/ParseOne/isFile/isLocal (go/ssa of the working tree): every list of up to K arguments of up to L arbitrary bytes is covered by solver-decided path conditions; each path's partition/ordering/error obligations are discharged. Bounded, not a proof.",
   note="Trusted: gosym engine (cross-validated natively on sampled path models each run), z3 4.8.12, the harness's reference classification of file/local arguments written from the filepath.Ext documentation. Outside: more than K arguments or arguments longer than L bytes.",
   technique="symbolic execution of go/ssa with SMT (z3) path feasibility and assertion discharge; native replay of counter-examples"),
}
na_default="check not built yet (work in progress)"
na={}
checks=[]
for p in props:
    if p in claimed:
        c=claimed[p]
        checks.append({"property_id":p,"quick_cmd":f"./bin/gosym check {p} --tier quick","thorough_cmd":f"./bin/gosym check {p} --tier thorough",
          "evidence_file":f"/verif/evidence/{p}.json","replay_cmd_template":f"./bin/gosym check {p} --replay {{path}}","engine":"gosym",
          "level_claimed":{"category":c["level"],"text":c["text"],"design_ref":c["ref"]},"level_note":c["note"],"technique":c["technique"]})
m={"version":1,
 "setup_cmd":"cd /verif && ./setup.sh",
 "hooks":{"guard":"verif","enable":"no source hooks: harness files are injected with go/packages Overlay (symbolic run) and go test -overlay (native replay)","baseline_off_cmd":"cd /repo && go test -mod=mod -json -vet=off -count=1 -timeout 25m ./...","source_commits":[],"add_only":True},
 "engines":[{"name":"gosym","path":"/verif/gosym","serves_properties":sorted(claimed),"kind_free_text":"symbolic executor over go/ssa (forking by re-execution, concolic models) with an SMT back end (z3 -in); counter-examples replayed natively"}],
 "checks":checks,
 "not_applicable":[{"property_id":p,"reason":na.get(p,na_default)} for p in props if p not in claimed]}
json.dump(m,open('/verif/MANIFEST.json','w'),indent=1)
print(len(checks),"checks")
