#!/usr/bin/env python3
# Regenerates MANIFEST.json from the table below (claimed checks) and the N/A reasons.
import json
props=[json.loads(l)['id'] for l in open('/verif/properties.jsonl')]
claimed={
 "C35": dict(level="model_checking", ref="6 (C35)",
   text="Bounded symbolic execution of the real ParseAll/ParseOne/isFile/isLocal (go/ssa of the working tree): every list of up to K arguments of up to L arbitrary bytes is covered by solver-decided path conditions; each path's partition/ordering/error obligations are discharged. Bounded, not a proof.",
   note="Trusted: gosym engine (cross-validated natively on sampled path models each run), z3 4.8.12, the harness's reference classification of file/local arguments written from the filepath.Ext documentation. Outside: more than K arguments or arguments longer than L bytes.",
   technique="symbolic execution of go/ssa with SMT (z3) path feasibility and assertion discharge; native replay of counter-examples"),
 "C15": dict(level="model_checking", ref="6 (C15)",
   text="Bounded symbolic execution of the real scanner (Scan, next, scanNumber, scanString, scanComment, findLineEnd, ... from the working tree's go/ssa): every input of <= N bytes scanned to EOF, plus T consecutive Scan calls over a symbolic window placed after 43 concrete contexts from an arbitrary scanner state. Per step: progress measure decreases, offsets ordered and inside the source, token text equals the source bytes, no byte outside a token in comment mode, no panic. Bounded, not a proof.",
   note="Trusted: gosym engine (paths cross-validated natively each run), z3, oracle conventions listed in evidence.assumptions. Outside: tokens longer than context+window; non-ASCII window bytes in the quick tier.",
   technique="symbolic execution of go/ssa with SMT (z3) path feasibility and assertion discharge; native replay of counter-examples"),
 "C16": dict(level="model_checking", ref="6 (C16)",
   text="Differential symbolic execution: the XGo scanner and GOROOT's go/scanner (go1.23.5) both run symbolically on the same bytes (42 concrete contexts + window of <= N symbolic bytes, both comment modes); offsets, kinds by spelling, literals, inserted semicolons and error offsets must agree until EOF. Four genuine divergence classes are recorded as known findings and assumed away by class.",
   note="Trusted: gosym engine, z3, go/scanner of the installed toolchain as the reference. Outside: lexemes longer than context+window, non-ASCII window bytes, streams after the first token of an open known-finding class.",
   technique="differential symbolic execution of two real implementations over go/ssa with SMT (z3); native replay"),
 "C32": dict(level="model_checking", ref="6 (C32)",
   text="Differential symbolic execution of tpl/scanner.Scan and scanner.Scan on the same bytes (41 concrete contexts + window of <= N symbolic bytes, both comment modes): offsets, literals, inserted semicolons and EOF must agree on inputs made of shared lexemes.",
   note="Trusted: gosym engine, z3. Shared-lexeme filter: no keywords, c/py strings, ~, @, **. Outside: lexemes longer than context+window, non-ASCII window bytes.",
   technique="differential symbolic execution of two real implementations over go/ssa with SMT (z3); native replay"),
 "C33": dict(level="model_checking", ref="6 (C33)",
   text="The token value is a single symbolic integer over the whole int range; String/Len/ForEach/IsOperator/IsKeyword/Precedence run from go/ssa and the engine forks over the token tables of the tree; every spelled operator/keyword token is scanned by the real XGo / TPL scanner and must come back as exactly that token. Complete for the (finite) tables.",
   note="Trusted: gosym engine, z3. One open known finding (TILDE spelled '~' scans as ILLEGAL).",
   technique="symbolic execution of go/ssa with SMT (z3): symbolic token value, solver-enumerated table forks"),
 "C27": dict(level="model_checking", ref="6 (C27)",
   text="Bounded symbolic execution of the real tpl.New (tpl/scanner, tpl/parser, tpl/cl, strconv.Unquote/UnquoteChar) on grammar text = one of 20 concrete frames around a window of <= N symbolic bytes; an escaping panic is the violation.",
   note="Trusted: gosym engine, z3. Outside: malformed regions longer than the window; non-ASCII window bytes.",
   technique="symbolic execution of go/ssa with SMT (z3) path feasibility; native replay"),
 "C28": dict(level="model_checking", ref="6 (C28)",
   text="Grammars generated from symbolic selectors (incl. nullable repetitions, direct and indirect left recursion), compiled by the real tpl.New and matched by the real matcher on symbolic token inputs; exceeding an instruction/call-depth budget far above any terminating match is non-termination, confirmed natively under a wall-clock limit.",
   note="Trusted: gosym engine, z3, token-stream stub. Bounded by grammar depth/alphabet and token count.",
   technique="symbolic execution of go/ssa with SMT (z3); termination as a budget obligation; native replay with timeout"),
 "C29": dict(level="model_checking", ref="6 (C29)",
   text="Differential: the real matcher vs a reference matcher written from tpl/README.md, on generated grammars and symbolic token inputs (kinds, literals, adjacency): success/failure, tokens consumed and result tree must agree.",
   note="Trusted: gosym engine, z3, the README-derived reference matcher in harness/c28/tplgen.go. Bounded by grammar depth/alphabet and token count.",
   technique="differential symbolic execution (implementation vs reference model) over go/ssa with SMT (z3)"),
 "C30": dict(level="model_checking", ref="6 (C30)",
   text="List/ListOp/RangeOp/BinaryOp*/BinaryExpr* run symbolically on R % sep results with symbolic operands and an UNINTERPRETED combining function: equality with the left-nested application term is required for every interpretation. The README calculator grammar (real tpl.New + matcher) is compared with a precedence-climbing evaluator on symbolic token streams.",
   note="Trusted: gosym engine, z3 (UF + bit-vectors). Bounded list length / token count.",
   technique="symbolic execution of go/ssa with SMT (z3) using uninterpreted functions"),
 "C31": dict(level="model_checking", ref="6 (C31)",
   text="Every rule body of <= NTOK tokens over the 10-token grammar-expression alphabet (kinds are symbolic selectors) is parsed by the real tpl/parser and compared with a reference precedence parser; ill-formed bodies must yield an error.",
   note="Trusted: gosym engine, z3, the reference parser in harness/c31. Bounded token count.",
   technique="differential symbolic execution (implementation vs reference parser) over go/ssa with SMT (z3)"),
 "C24": dict(level="model_checking", ref="6 (C24)",
   text="RearrangeFuncs/splitStmts/isFuncDecl/codeOf and the real scanner run in the engine on scripts assembled from symbolic selectors over 16 statement templates and 3 separators; the expected output (stable hoisting of function declarations over chunks, byte-exact) is known by construction. The SourceEx clause runs the real format.Source (parser + printer) in the engine.",
   note="Trusted: gosym engine, z3, the statement templates' classification. Bounded: <= K statements from the template table.",
   technique="symbolic execution of go/ssa with SMT (z3): solver-enumerated selector forks, construction-based oracle; native replay"),
 "C34": dict(level="model_checking", ref="6 (C34)",
   text="The real ParseFSDir (with ParseFSFile, defaultClassKind, reqPkg, go/parser) runs over a harness FileSystem whose listing has symbolic names (prefix + <= L symbolic bytes), symbolic IsDir, default and custom class-kind configurations and both ParseGoAsGoPlus settings; the returned package map is compared with the property's statement written as a reference function.",
   note="Trusted: gosym engine, z3, the reference classification in harness/c34. Bounded: K entries, L symbolic bytes per name, contents fixed.",
   technique="differential symbolic execution (implementation vs reference) over go/ssa with SMT (z3); native replay"),
 "C36": dict(level="model_checking", ref="6 (C36)",
   text="Two-state relational check of the real dirHash: transcripts of what is hashed are equal iff the sets of (name,size,mtime) of compilable non-underscore regular files are equal, for arbitrary pairs of directory states within the bound; os.ReadDir/sha256/Module.IsClass are stubbed symbolically and the stubs are cross-validated against real directories natively.",
   note="Trusted: gosym engine, z3, collision-freeness of SHA-256, the listing model. Bounded: K entries, L bytes, value ranges.",
   technique="relational (two-run) symbolic execution over go/ssa with SMT (z3); native replay on real directories"),
 "C26": dict(level="model_checking", ref="6 (C26)",
   text="The real writeFileWithBackup is executed symbolically over a file-system model with a symbolic crash point, a symbolic failing call and symbolic original mode; the modelled directory must hold the complete original or complete new content at every crash point and error return, and the new content with the original mode after success. Counter-examples and sampled paths are replayed on the real file system under strace kill / error injection.",
   note="Trusted: gosym engine, z3, the file-system model (atomic POSIX rename, CreateTemp mode 0600). Complete for the call sequence of the working tree; one fault per run.",
   technique="symbolic execution of go/ssa over a file-system model with symbolic crash/fault points, SMT (z3); native replay with strace fault injection"),
 "C38": dict(level="model_checking", ref="6 (C38)",
   text="headerWriter.Write / headerReader.Read (with the real bufio.Reader, strconv.ParseInt, strings.TrimSpace, io.ReadFull), EncodeMessage/DecodeMessage, marshal and toWireError run symbolically: message streams read back through a reader cutting the bytes at symbolic positions; the full message variety incl. 2^53-boundary IDs; malformed streams (9 frames around a symbolic window) must give errors, never panics, and accepted payloads are exactly the declared bytes after the header.",
   note="Trusted: gosym engine, z3, the contract model of encoding/json on wireCombined (the real encoding/json runs in native cross-validation and replay). One open known finding (int64 IDs coerced through float64).",
   technique="symbolic execution of go/ssa with SMT (z3), contract stub for encoding/json; native replay with the real codec"),
}
na_default="check not built yet (work in progress)"
na={}
checks=[]
for p in props:
    if p in claimed:
        c=claimed[p]
        checks.append({"property_id":p,"quick_cmd":f"./bin/gosym check {p} --tier quick","thorough_cmd":f"./bin/gosym check {p} --tier thorough",
          "evidence_file":f"/verif/evidence/{p}.json","replay_cmd_template":f"./bin/gosym check {p} --replay {{path}}","engine":"gosym",
          "level_claimed":{"category":c["level"],"text":c["text"],"design_ref":c["ref"]},"level_note":c["note"],"technique":c["technique"]})
m={"version":1,
 "setup_cmd":"cd /verif && ./setup.sh",
 "hooks":{"guard":"verif","enable":"no source hooks: harness files are injected with go/packages Overlay (symbolic run) and go test -overlay (native replay)","baseline_off_cmd":"cd /repo && go test -mod=mod -json -vet=off -count=1 -timeout 25m ./...","source_commits":[],"add_only":True},
 "engines":[{"name":"gosym","path":"/verif/gosym","serves_properties":sorted(claimed),"kind_free_text":"symbolic executor over go/ssa (forking by re-execution, concolic models) with an SMT back end (z3 -in); counter-examples replayed natively"}],
 "checks":checks,
 "not_applicable":[{"property_id":p,"reason":na.get(p,na_default)} for p in props if p not in claimed]}
json.dump(m,open('/verif/MANIFEST.json','w'),indent=1)
print(len(checks),"checks")
