#!/bin/sh
set -e
cd "$(dirname "$0")"
export GOFLAGS=-mod=mod GOPROXY=off GOSUMDB=off GOTOOLCHAIN=local CGO_ENABLED=0
mkdir -p bin evidence
(cd gosym && go build -o ../bin/gosym .)
