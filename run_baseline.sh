#!/bin/sh
# Runs the repository's baseline test command (guard off) and compares with BASELINE.json's stable_pass list.
# usage: run_baseline.sh [outfile]
out=${1:-/tmp/baseline_run.json}
cd /repo && go test -mod=mod -json -vet=off -count=1 -timeout 25m ./... > "$out" 2>/dev/null
python3 - "$out" <<'PY'
import json,sys
passed=set(); failed=set()
for l in open(sys.argv[1]):
    try: e=json.loads(l)
    except: continue
    if e.get('Test') and e.get('Action') in('pass','fail'):
        k=e['Package']+'::'+e['Test']
        (passed if e['Action']=='pass' else failed).add(k)
b=json.load(open('/root/.vp/BASELINE.json'))
st=set(b['stable_pass'])
missing=sorted(st-passed)
print('stable',len(st),'passed_of_stable',len(st&passed),'missing_or_failed',len(missing))
for m in missing[:40]: print('  NOT-PASSED',m, '(failed)' if m in failed else '(absent)')
PY
