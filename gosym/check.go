package main

// The check driver: runs the harnesses of one property, replays every
// counter-example natively against the real build, cross-validates
// explored paths against native execution, applies the known-findings
// file, writes evidence and decides the exit code.

import (
	"bytes"
	"context"
	"encoding/json"
	"flag"
	"fmt"
	"os"
	"os/exec"
	"path/filepath"
	"regexp"
	"runtime"
	"sort"
	"strconv"
	"strings"
	"time"

	"golang.org/x/tools/go/ssa"
)

type harnessSpec struct {
	Name     string         // harness function
	Pkg      string         // import path (inside the repo module)
	Files    []string       // harness sources under /verif/harness
	Quick    map[string]int // parameters per tier
	Thorough map[string]int
	// Variants multiply the harness over extra parameter assignments (each is a separate exploration)
	Variants         []map[string]int
	PanicOK          bool // an uncaught panic is not a violation
	BudgetViolation  bool // exceeding the instruction budget is the violation (termination properties)
	MaxSteps         int64
	MaxStepsThorough int64
	// ThoroughCore > 0: in the thorough tier only the first ThoroughCore variants (the core contexts) run with
	// the Thorough parameters; the remaining variants keep the Quick parameters (stated in the evidence per variant)
	ThoroughCore int
	Goroutine        bool
	ReplayTimeout    time.Duration
	Setup            func(i *interpreter)
	WantInit         []string
	NoCrossVal       bool
	// Overrides: full SSA name of a function -> name of the harness function (same package) that replaces it
	// in the symbolic run (environment stubs). Natively the harness must not depend on them.
	Overrides map[string]string
	// ExtDir: the harness lives in a generated package directory (own go.mod) prepared by checkSpec.Prepare;
	// Pkg/Files are unused then.
	ExtDir string
}

type checkSpec struct {
	ID          string
	Level       string
	Harnesses   []harnessSpec
	Assumptions []string
	Rule        string
	Prepare     func(tier string) error // optional: generate inputs before harnesses run
	Extra       func(tier string, ev map[string]any) (violations []Violation) // optional extra stage
}

var checkRegistry = map[string]*checkSpec{}

func register(c *checkSpec) { checkRegistry[c.ID] = c }

type knownFinding struct {
	Property    string         `json:"property"`
	ID          string         `json:"id"`
	Status      string         `json:"status"` // open | fixed
	Commit      string         `json:"commit,omitempty"`
	Description string         `json:"description"`
	Harness     string         `json:"harness,omitempty"`
	MsgContains string         `json:"msg_contains,omitempty"`
	NoteKey     string         `json:"note_key,omitempty"`
	NoteRegex   string         `json:"note_regex,omitempty"`
	Params      map[string]int `json:"params,omitempty"` // harness parameters set while the finding is open (assumes the class away)
	Template    string         `json:"template,omitempty"` // translation validation: isolated template that fails to compile while the finding is open
	Witness     *struct {
		Harness string         `json:"harness"`
		Vector  []uint64       `json:"vector"`
		Params  map[string]int `json:"params"`
	} `json:"witness,omitempty"`
}

func loadKnownFindings() []knownFinding {
	b, err := os.ReadFile(filepath.Join(verifRoot, "known_findings.json"))
	if err != nil {
		return nil
	}
	var f struct {
		Findings []knownFinding `json:"findings"`
	}
	if err := json.Unmarshal(b, &f); err != nil {
		fmt.Fprintln(os.Stderr, "known_findings.json:", err)
		return nil
	}
	return f.Findings
}

func (k *knownFinding) matches(v *Violation) bool {
	if len(k.Params) > 0 {
		// the finding's class is assumed away during exploration (its KF_* parameters are set): whatever the
		// explorer still finds is by construction a different violation and is never suppressed
		return false
	}
	if k.Harness != "" && k.Harness != v.Harness {
		return false
	}
	if k.MsgContains != "" && !strings.Contains(v.Msg, k.MsgContains) {
		return false
	}
	if k.NoteKey != "" {
		re, err := regexp.Compile(k.NoteRegex)
		if err != nil {
			return false
		}
		if !re.MatchString(v.Notes[k.NoteKey]) {
			return false
		}
	}
	return true
}

func workDir(id string) string {
	d := filepath.Join(verifRoot, "work", id)
	os.MkdirAll(d, 0755)
	return d
}

// nativeOverlay writes the files needed to run harnesses natively with
// `go test -overlay` and returns the overlay JSON path.
func nativeOverlay(id string, h *harnessSpec, names []string) (string, error) {
	ov, pkgName, err := harnessOverlay(h.Pkg, h.Files)
	if err != nil {
		return "", err
	}
	wd := workDir(id)
	repl := map[string]string{}
	n := 0
	for virt, content := range ov {
		real := filepath.Join(wd, fmt.Sprintf("ov_%s_%d_%s", h.Name, n, filepath.Base(virt)))
		n++
		if err := os.WriteFile(real, content, 0644); err != nil {
			return "", err
		}
		repl[virt] = real
	}
	tmpl, err := os.ReadFile(filepath.Join(verifRoot, "harness", "rt", "vx_replay_test.go.txt"))
	if err != nil {
		return "", err
	}
	var hs strings.Builder
	for _, nm := range names {
		fmt.Fprintf(&hs, "\t%q: %s,\n", nm, nm)
	}
	ts := strings.Replace(string(tmpl), "package PKG", "package "+pkgName, 1)
	ts = strings.Replace(ts, "//HARNESSES\n", hs.String(), 1)
	real := filepath.Join(wd, "ov_"+h.Name+"_replay_test.go")
	if err := os.WriteFile(real, []byte(ts), 0644); err != nil {
		return "", err
	}
	repl[filepath.Join(pkgDir(h.Pkg), "zz_vx_replay_test.go")] = real
	b, _ := json.Marshal(map[string]any{"Replace": repl})
	p := filepath.Join(wd, "overlay_"+h.Name+".json")
	return p, os.WriteFile(p, b, 0644)
}

func vecString(vec []uint64, params map[string]int) string {
	var sb strings.Builder
	for k, v := range vec {
		if k > 0 {
			sb.WriteByte(',')
		}
		sb.WriteString(strconv.FormatUint(v, 10))
	}
	sb.WriteByte(';')
	keys := make([]string, 0, len(params))
	for k := range params {
		keys = append(keys, k)
	}
	sort.Strings(keys)
	for k, name := range keys {
		if k > 0 {
			sb.WriteByte(',')
		}
		fmt.Fprintf(&sb, "%s=%d", name, params[name])
	}
	return sb.String()
}

// buildTestBinary compiles the package's test binary (with the overlay) once.
func buildTestBinary(id string, h *harnessSpec, overlay string) (string, error) {
	bin := filepath.Join(workDir(id), "replay_"+h.Name+".test")
	cmd := exec.Command("go", "test", "-c", "-vet=off", "-overlay", overlay, "-o", bin, h.Pkg)
	cmd.Dir = repoRoot
	cmd.Env = goEnv()
	out, err := cmd.CombinedOutput()
	if err != nil {
		return "", fmt.Errorf("building replay binary: %v\n%s", err, out)
	}
	return bin, nil
}

// buildExtTestBinary writes the replay test into the generated package directory and compiles its test binary.
func buildExtTestBinary(id string, h *harnessSpec, names []string) (string, error) {
	tmpl, err := os.ReadFile(filepath.Join(verifRoot, "harness", "rt", "vx_replay_test.go.txt"))
	if err != nil {
		return "", err
	}
	pkgName, err := packageNameOf(h.ExtDir)
	if err != nil {
		return "", err
	}
	var hs strings.Builder
	for _, nm := range names {
		fmt.Fprintf(&hs, "\t%q: %s,\n", nm, nm)
	}
	ts := strings.Replace(string(tmpl), "package PKG", "package "+pkgName, 1)
	ts = strings.Replace(ts, "//HARNESSES\n", hs.String(), 1)
	if err := os.WriteFile(filepath.Join(h.ExtDir, "zz_vx_replay_test.go"), []byte(ts), 0644); err != nil {
		return "", err
	}
	bin := filepath.Join(workDir(id), "replay_"+h.Name+".test")
	cmd := exec.Command("go", "test", "-c", "-vet=off", "-o", bin, ".")
	cmd.Dir = h.ExtDir
	cmd.Env = goEnv()
	out, err := cmd.CombinedOutput()
	if err != nil {
		return "", fmt.Errorf("building replay binary: %v\n%s", err, out)
	}
	return bin, nil
}

// replayNative runs one vector natively and returns the VX-RESULT line plus notes.
func replayNative(bin string, h *harnessSpec, fn string, vec []uint64, params map[string]int, timeout time.Duration) (result string, out string) {
	return replayNativeSched(bin, h, fn, vec, params, timeout, "")
}

// replayNativeSched: schedule != "" makes the native runtime follow the solver's schedule (goroutine mode).
func replayNativeSched(bin string, h *harnessSpec, fn string, vec []uint64, params map[string]int, timeout time.Duration, schedule string) (result string, out string) {
	if timeout == 0 {
		timeout = 20 * time.Second
	}
	ctx, cancel := context.WithTimeout(context.Background(), timeout)
	defer cancel()
	cmd := exec.CommandContext(ctx, bin, "-test.run", "^TestVxReplay$", "-test.count=1")
	cmd.Dir = pkgDir(h.Pkg)
	if h.ExtDir != "" {
		cmd.Dir = h.ExtDir
	}
	cmd.Env = append(goEnv(), "VX_REPLAY="+vecString(vec, params), "VX_HARNESS="+fn)
	if schedule != "" {
		cmd.Env = append(cmd.Env, "VX_SCHEDULE="+schedule)
	}
	var buf bytes.Buffer
	cmd.Stdout = &buf
	cmd.Stderr = &buf
	err := cmd.Run()
	out = buf.String()
	if ctx.Err() != nil {
		return "timeout", out
	}
	for _, line := range strings.Split(out, "\n") {
		if strings.HasPrefix(line, "VX-RESULT: ") {
			return strings.TrimPrefix(line, "VX-RESULT: "), out
		}
	}
	if err != nil {
		// crashed without our recover (fatal error, stack overflow, os.Exit)
		if strings.Contains(out, "stack overflow") || strings.Contains(out, "goroutine stack exceeds") {
			return "fatal: stack overflow", out
		}
		return "crash: " + firstLine(out), out
	}
	return "no-result", out
}

func firstLine(s string) string {
	s = strings.TrimSpace(s)
	if k := strings.IndexByte(s, '\n'); k >= 0 {
		return s[:k]
	}
	return s
}

func confirms(v *Violation, result string) bool {
	switch v.Kind {
	case "assert":
		return strings.HasPrefix(result, "assert-fail")
	case "panic":
		return strings.HasPrefix(result, "panic") || strings.HasPrefix(result, "fatal") || strings.HasPrefix(result, "crash")
	case "budget":
		return result == "timeout" || strings.HasPrefix(result, "fatal")
	}
	return false
}

func mergeParams(ms ...map[string]int) map[string]int {
	out := map[string]int{}
	for _, m := range ms {
		for k, v := range m {
			out[k] = v
		}
	}
	return out
}

type harnessResult struct {
	spec    *harnessSpec
	params  map[string]int
	ex      *Explorer
	summary map[string]any
}

func cmdCheck(args []string) int {
	fs := flag.NewFlagSet("check", flag.ExitOnError)
	tier := fs.String("tier", envOr("VERIF_TIER", "quick"), "quick|thorough")
	workers := fs.Int("workers", runtime.NumCPU(), "workers")
	only := fs.String("only", "", "run only this harness")
	replayPath := fs.String("replay", "", "replay a violation file natively")
	fs.Parse(args[1:])
	id := args[0]
	spec := checkRegistry[id]
	if spec == nil {
		fmt.Fprintln(os.Stderr, "unknown check", id)
		return 2
	}
	if *replayPath != "" {
		return replayFile(spec, *replayPath)
	}
	seed, _ := strconv.Atoi(os.Getenv("VERIF_SEED"))
	t0 := time.Now()
	evPath := filepath.Join(verifRoot, "evidence", id+".json")
	os.MkdirAll(filepath.Dir(evPath), 0755)
	os.Remove(evPath)

	known := loadKnownFindings()
	kfParams := map[string]int{}
	var open []*knownFinding
	for k := range known {
		f := &known[k]
		if f.Property == id && f.Status == "open" {
			open = append(open, f)
			for p, v := range f.Params {
				kfParams[p] = v
			}
		}
	}

	if spec.Prepare != nil {
		if err := spec.Prepare(*tier); err != nil {
			fmt.Fprintln(os.Stderr, "prepare:", err)
			if ce, ok := err.(*tvCompileError); ok {
				return reportCompileViolation(spec, *tier, ce, t0, evPath)
			}
			return 2
		}
	}

	type progKey struct{ pkg, files string }
	progs := map[progKey]*loaded{}
	pools := map[progKey]*workerPool{}
	defer func() {
		for _, p := range pools {
			p.Close()
		}
	}()
	var results []*harnessResult
	var allViolations []Violation
	engineFault := ""
	for hk := range spec.Harnesses {
		h := &spec.Harnesses[hk]
		if *only != "" && h.Name != *only {
			continue
		}
		key := progKey{h.Pkg, strings.Join(h.Files, ",")}
		if h.ExtDir != "" {
			key = progKey{h.ExtDir, ""}
		}
		ld := progs[key]
		if ld == nil && h.ExtDir != "" {
			var err error
			ld, err = loadProgramAt(h.ExtDir, ".", nil)
			if err != nil {
				fmt.Fprintln(os.Stderr, "load:", err)
				return 2
			}
			progs[key] = ld
		}
		if ld == nil {
			ov, _, err := harnessOverlay(h.Pkg, h.Files)
			if err != nil {
				fmt.Fprintln(os.Stderr, "overlay:", err)
				return 2
			}
			ld, err = loadProgram(h.Pkg, ov)
			if err != nil {
				fmt.Fprintln(os.Stderr, "load:", err)
				return 2
			}
			progs[key] = ld
		}
		fn := ld.pkg.Func(h.Name)
		if fn == nil {
			fmt.Fprintln(os.Stderr, "harness function not found:", h.Name)
			return 2
		}
		base := h.Quick
		maxSteps := h.MaxSteps
		if *tier == "thorough" {
			if h.Thorough != nil {
				base = h.Thorough
			}
			if h.MaxStepsThorough > 0 {
				maxSteps = h.MaxStepsThorough
			}
		}
		if maxSteps == 0 {
			maxSteps = 5_000_000
		}
		variants := h.Variants
		if len(variants) == 0 {
			variants = []map[string]int{nil}
		}
		for vk, vr := range variants {
			vbase := base
			if *tier == "thorough" && h.ThoroughCore > 0 && vk >= h.ThoroughCore {
				vbase = h.Quick
			}
			params := mergeParams(vbase, vr, kfParams)
			want := map[string]bool{}
			for _, w := range h.WantInit {
				want[w] = true
			}
			ex := NewExplorer(ld.prog, ExploreConfig{Harness: h.Name, Pkg: ld.pkg, Fn: fn, Params: params, Workers: *workers,
				MaxSteps: maxSteps, PanicIsViolation: !h.PanicOK, BudgetIsViolation: h.BudgetViolation, Goroutine: h.Goroutine,
				Setup: h.Setup, WantInit: want})
			if len(h.Overrides) > 0 && h.Setup == nil {
				ovs := h.Overrides
				hpkg := ld.pkg
				h.Setup = func(i *interpreter) {
					i.overrides = map[string]*ssa.Function{}
					for target, repl := range ovs {
						f := hpkg.Func(repl)
						if f == nil {
							panic("override function not found: " + repl)
						}
						i.overrides[target] = f
					}
				}
			}
			pool := pools[key]
			if pool == nil || h.Setup != nil {
				var err error
				pool, err = newWorkerPool(ld.prog, ld.pkg, *workers, want, h.Setup)
				if err != nil {
					fmt.Fprintln(os.Stderr, "pool:", err)
					return 2
				}
				if h.Setup == nil {
					pools[key] = pool
				} else {
					defer pool.Close()
				}
				fmt.Fprintf(os.Stderr, "[%s] worker pool ready (package init interpreted) in %.1fs\n", id, pool.initS)
			}
			if err := ex.RunWith(pool); err != nil {
				fmt.Fprintln(os.Stderr, "explore:", err)
				return 2
			}
			res := &harnessResult{spec: h, params: params, ex: ex, summary: ex.summary()}
			results = append(results, res)
			fmt.Fprintf(os.Stderr, "[%s] %s %v: paths=%v forks=%d queries=%d violations=%d unsupported=%d inconclusive=%d %.1fs\n",
				id, h.Name, params, ex.paths, ex.forks, ex.queries, len(ex.violations), len(ex.unsupported), len(ex.inconclusive), time.Since(ex.startT).Seconds())
			allViolations = append(allViolations, ex.violations...)
		}
	}

	// Native stage: replay violations, cross-validate sampled paths, replay known-finding witnesses.
	bins := map[string]string{}
	getBin := func(h *harnessSpec) (string, error) {
		if b, ok := bins[h.Name]; ok {
			return b, nil
		}
		var names []string
		seenName := map[string]bool{}
		for k := range spec.Harnesses {
			if spec.Harnesses[k].Pkg == h.Pkg && spec.Harnesses[k].ExtDir == h.ExtDir && strings.Join(spec.Harnesses[k].Files, ",") == strings.Join(h.Files, ",") && !seenName[spec.Harnesses[k].Name] {
				names = append(names, spec.Harnesses[k].Name)
				seenName[spec.Harnesses[k].Name] = true
			}
		}
		if h.ExtDir != "" {
			b, err := buildExtTestBinary(id, h, names)
			if err != nil {
				return "", err
			}
			for _, n := range names {
				bins[n] = b
			}
			return b, nil
		}
		ov, err := nativeOverlay(id, h, names)
		if err != nil {
			return "", err
		}
		b, err := buildTestBinary(id, h, ov)
		if err != nil {
			return "", err
		}
		for _, n := range names {
			bins[n] = b
		}
		return b, nil
	}
	specOf := func(name string) *harnessSpec {
		for k := range spec.Harnesses {
			if spec.Harnesses[k].Name == name {
				return &spec.Harnesses[k]
			}
		}
		return nil
	}

	crossValidated, crossMismatch := 0, 0
	var crossSamples []string
	for _, res := range results {
		if res.spec.NoCrossVal {
			continue
		}
		bin, err := getBin(res.spec)
		if err != nil {
			fmt.Fprintln(os.Stderr, err)
			return 2
		}
		for _, cv := range res.ex.crossVal {
			result, out := replayNative(bin, res.spec, res.spec.Name, cv.vector, mergeParams(res.params, map[string]int{"ITERS": 4}), res.spec.ReplayTimeout)
			nativeObs := extractObs(out)
			okEnd := (cv.end == "done" && result == "ok") || (cv.end == "panic" && strings.HasPrefix(result, "panic"))
			if !okEnd && res.spec.Goroutine {
				// an unguided native run of a concurrent scenario depends on the machine's load (the harness
				// inspects the state after a pause): repeat before calling it a disagreement
				for attempt := 0; attempt < 2 && !okEnd; attempt++ {
					result, out = replayNative(bin, res.spec, res.spec.Name, cv.vector, mergeParams(res.params, map[string]int{"ITERS": 2}), res.spec.ReplayTimeout)
					nativeObs = extractObs(out)
					okEnd = (cv.end == "done" && result == "ok") || (cv.end == "panic" && strings.HasPrefix(result, "panic"))
				}
			}
			if okEnd && nativeObs == cv.obs {
				crossValidated++
				if len(crossSamples) < 3 {
					crossSamples = append(crossSamples, fmt.Sprintf("%s vec=%v obs=%q", res.spec.Name, cv.vector, cv.obs))
				}
			} else {
				crossMismatch++
				engineFault = fmt.Sprintf("cross-validation mismatch in %s vec=%v: engine end=%s obs=%q; native result=%s obs=%q", res.spec.Name, cv.vector, cv.end, cv.obs, result, nativeObs)
				fmt.Fprintln(os.Stderr, "ENGINE-FAULT:", engineFault)
			}
		}
	}

	var reported, unconfirmed, suppressed []Violation
	for k := range allViolations {
		v := &allViolations[k]
		h := specOf(v.Harness)
		bin, err := getBin(h)
		if err != nil {
			fmt.Fprintln(os.Stderr, err)
			return 2
		}
		to := h.ReplayTimeout
		if v.Kind == "budget" && to == 0 {
			to = 10 * time.Second
		}
		result, out := replayNativeSched(bin, h, v.Harness, nativeVector(v.Vector, v.Inputs), v.Params, to, v.Schedule)
		v.ReplayOut = result
		for _, line := range strings.Split(out, "\n") {
			if strings.HasPrefix(line, "VX-NOTE: ") {
				kv := strings.SplitN(strings.TrimPrefix(line, "VX-NOTE: "), "=", 2)
				if len(kv) == 2 {
					if v.Notes == nil {
						v.Notes = map[string]string{}
					}
					if uq, err := strconv.Unquote(kv[1]); err == nil {
						v.Notes["native:"+kv[0]] = uq
					}
				}
			}
		}
		if !confirms(v, result) {
			v.Replayed = "not-reproduced"
			unconfirmed = append(unconfirmed, *v)
			continue
		}
		v.Replayed = "confirmed"
		matched := false
		for _, f := range open {
			if f.matches(v) {
				v.Known = f.ID
				matched = true
				break
			}
		}
		if matched {
			suppressed = append(suppressed, *v)
		} else {
			reported = append(reported, *v)
		}
	}

	// Known-finding witnesses: replay each on every run.
	var kfLines []string
	for _, f := range open {
		if f.Template != "" {
			for _, r := range tvKF[id] {
				if r.Template != f.Template {
					continue
				}
				if r.Failed {
					kfLines = append(kfLines, fmt.Sprintf("KNOWN-FINDING: property=%s %s [%s; template %s is still rejected: %s]", id, f.Description, f.ID, r.Template, firstLine(r.Output)))
				} else {
					kfLines = append(kfLines, fmt.Sprintf("NOTE: property=%s known finding %s no longer reproduces (template %s compiles)", id, f.ID, r.Template))
				}
			}
			continue
		}
		if f.Witness == nil {
			continue
		}
		h := specOf(f.Witness.Harness)
		if h == nil {
			continue
		}
		bin, err := getBin(h)
		if err != nil {
			fmt.Fprintln(os.Stderr, err)
			return 2
		}
		to := h.ReplayTimeout
		if to == 0 {
			to = 10 * time.Second
		}
		wp := mergeParams(f.Witness.Params)
		result, _ := replayNative(bin, h, f.Witness.Harness, f.Witness.Vector, wp, to)
		if strings.HasPrefix(result, "assert-fail") || strings.HasPrefix(result, "panic") || result == "timeout" || strings.HasPrefix(result, "fatal") || strings.HasPrefix(result, "crash") {
			kfLines = append(kfLines, fmt.Sprintf("KNOWN-FINDING: property=%s %s [%s; witness replays: %s]", id, f.Description, f.ID, result))
		} else {
			kfLines = append(kfLines, fmt.Sprintf("NOTE: property=%s known finding %s no longer reproduces (witness result: %s)", id, f.ID, result))
		}
	}

	var extraViolations []Violation
	evExtra := map[string]any{}
	if spec.Extra != nil {
		extraViolations = spec.Extra(*tier, evExtra)
		reported = append(reported, extraViolations...)
	}

	// Evidence.
	var states, transitions, obligations, queries, steps int64
	var solverWall float64
	var hs []map[string]any
	unsupportedTotal, inconclusiveTotal := 0, 0
	fnSet := map[string]int64{}
	var samples []any
	for _, r := range results {
		ex := r.ex
		states += ex.totalPaths()
		transitions += ex.forks
		obligations += ex.obligations
		queries += ex.queries
		steps += ex.steps
		solverWall += ex.solverWall.Seconds()
		for _, n := range ex.unsupported {
			unsupportedTotal += n
		}
		for _, n := range ex.inconclusive {
			inconclusiveTotal += n
		}
		for f, n := range ex.fnCount {
			fnSet[f] += n
		}
		for _, s := range ex.samples {
			if len(samples) < 6 {
				s["harness"] = r.spec.Name
				samples = append(samples, s)
			}
		}
		hs = append(hs, map[string]any{"harness": r.spec.Name, "params": r.params, "paths_by_end": ex.paths, "fork_decisions": ex.forks,
			"obligations": ex.obligations, "obligations_concrete": ex.trivialObl, "solver_queries": ex.queries, "solver_errors": ex.solverErrs, "solver_wall_s": ex.solverWall.Seconds(),
			"wall_s": r.summary["wall_s"], "reach": ex.reach, "unsupported": ex.unsupported, "inconclusive": ex.inconclusive,
			"instructions": ex.steps, "max_decisions_on_a_path": ex.maxDecisions, "init_notes": ex.initFail})
	}
	if len(samples) == 0 {
		samples = append(samples, "no completed path")
	}
	type fc struct {
		n string
		c int64
	}
	var fl []fc
	for n, c := range fnSet {
		fl = append(fl, fc{n, c})
	}
	sort.Slice(fl, func(a, b int) bool { return fl[a].c > fl[b].c })
	var fnames []string
	for k, f := range fl {
		if k >= 60 {
			break
		}
		fnames = append(fnames, fmt.Sprintf("%s (%d instr)", f.n, f.c))
	}
	level := spec.Level
	if level == "" {
		level = "model_checking"
	}
	cov := map[string]any{
		"states": states, "transitions": transitions, "traces_validated_against_impl": crossValidated,
		"samples": samples, "explanation": "states = completed symbolic paths (each covers every input satisfying its path condition); transitions = solver-decided fork decisions; every path's obligations were discharged by z3 (unsat) or folded to a constant by the engine",
		"harnesses": hs, "functions_encoded": fnames, "functions_encoded_count": len(fnSet),
		"obligations": obligations, "solver_queries": queries, "solver_wall_s": solverWall, "instructions_interpreted": steps,
		"unsupported_paths": unsupportedTotal, "inconclusive_events": inconclusiveTotal,
		"violations_confirmed": len(reported), "violations_known": len(suppressed), "counterexamples_not_reproduced": len(unconfirmed),
		"cross_validation_samples": crossSamples, "cross_validation_mismatches": crossMismatch,
		"rule": spec.Rule, "evaluations": states, "distinct_nontrivial": states,
	}
	if level == "translation_validation" {
		cov["programs"] = tvCountPrograms(id)
		// every obligation of these harnesses compares the compiled template with its reference on a path
		cov["disagreements_checked"] = obligations
		cov["disagreements_found"] = len(reported) + len(suppressed) + len(unconfirmed)
	}
	for k, v := range evExtra {
		cov[k] = v
	}
	if len(unconfirmed) > 0 {
		var l []any
		for _, v := range unconfirmed {
			l = append(l, v)
		}
		cov["not_reproduced"] = l
	}
	if len(suppressed) > 0 {
		var l []any
		for k, v := range suppressed {
			if k < 5 {
				l = append(l, map[string]any{"finding": v.Known, "msg": v.Msg, "notes": v.Notes, "vector": v.Vector})
			}
		}
		cov["known_finding_hits"] = l
	}
	ev := map[string]any{
		"property_id": id, "tier": *tier, "seed": seed, "level": level, "coverage": cov,
		"assumptions": spec.Assumptions, "wall_s": time.Since(t0).Seconds(), "violations": len(reported),
	}
	b, _ := json.MarshalIndent(ev, "", " ")
	if err := os.WriteFile(evPath, b, 0644); err != nil {
		fmt.Fprintln(os.Stderr, err)
		return 2
	}

	for _, l := range kfLines {
		fmt.Println(l)
	}
	for _, v := range suppressed {
		_ = v
	}
	if len(suppressed) > 0 {
		fmt.Printf("INFO: property=%s %d counter-example(s) matched open known findings\n", id, len(suppressed))
	}
	for _, v := range unconfirmed {
		fmt.Printf("UNCONFIRMED: property=%s harness=%s msg=%q native=%s (engine/stub disagreement; not reported)\n", id, v.Harness, v.Msg, v.ReplayOut)
	}
	if unsupportedTotal > 0 || inconclusiveTotal > 0 {
		fmt.Printf("INCONCLUSIVE: property=%s unsupported_paths=%d inconclusive_events=%d (see evidence)\n", id, unsupportedTotal, inconclusiveTotal)
	}
	if engineFault != "" && len(reported) == 0 {
		fmt.Printf("ENGINE-FAULT: property=%s %s\n", id, engineFault)
		return 3
	}
	if engineFault != "" {
		// a natively reproduced violation does not depend on the engine; the disagreement is still shown
		fmt.Printf("NOTE: property=%s engine/native disagreement on a sampled path: %s\n", id, engineFault)
	}
	os.RemoveAll(filepath.Join(verifRoot, "work", id, "violations")) // never leave stale witnesses of an earlier run
	if len(reported) > 0 {
		vdir := filepath.Join(verifRoot, "work", id, "violations")
		os.MkdirAll(vdir, 0755)
		for k, v := range reported {
			p := filepath.Join(vdir, fmt.Sprintf("%s_%d.json", v.Harness, k))
			vb, _ := json.MarshalIndent(v, "", " ")
			os.WriteFile(p, vb, 0644)
			fmt.Printf("VIOLATION property=%s replay=%s\n", id, p)
			fmt.Printf("  harness=%s kind=%s msg=%q notes=%v native=%s\n", v.Harness, v.Kind, v.Msg, v.Notes, v.ReplayOut)
		}
		return 1
	}
	fmt.Printf("OK property=%s tier=%s paths=%d obligations=%d queries=%d cross_validated=%d wall=%.1fs\n", id, *tier, states, obligations, queries, crossValidated, time.Since(t0).Seconds())
	return 0
}

func extractObs(out string) string {
	var sb strings.Builder
	for _, line := range strings.Split(out, "\n") {
		if strings.HasPrefix(line, "VX-OBS: ") {
			sb.WriteString(strings.TrimPrefix(line, "VX-OBS: "))
			sb.WriteByte(';')
		}
	}
	return sb.String()
}

func replayFile(spec *checkSpec, path string) int {
	b, err := os.ReadFile(path)
	if err != nil {
		fmt.Fprintln(os.Stderr, err)
		return 2
	}
	var v Violation
	if err := json.Unmarshal(b, &v); err != nil {
		fmt.Fprintln(os.Stderr, err)
		return 2
	}
	if v.Kind == "compile" {
		if spec.Prepare == nil {
			return 2
		}
		err := spec.Prepare("quick")
		if ce, ok := err.(*tvCompileError); ok {
			fmt.Println("VX-RESULT: compile-fail:", ce.Error())
			return 1
		}
		if err != nil {
			fmt.Fprintln(os.Stderr, err)
			return 2
		}
		fmt.Println("VX-RESULT: ok (all templates compile and the emitted Go type-checks)")
		return 0
	}
	var h *harnessSpec
	var names []string
	for k := range spec.Harnesses {
		if spec.Harnesses[k].Name == v.Harness {
			h = &spec.Harnesses[k]
		}
	}
	if h == nil {
		fmt.Fprintln(os.Stderr, "harness not found:", v.Harness)
		return 2
	}
	seenName := map[string]bool{}
	for k := range spec.Harnesses {
		if spec.Harnesses[k].Pkg == h.Pkg && strings.Join(spec.Harnesses[k].Files, ",") == strings.Join(h.Files, ",") && !seenName[spec.Harnesses[k].Name] {
			names = append(names, spec.Harnesses[k].Name)
			seenName[spec.Harnesses[k].Name] = true
		}
	}
	ov, err := nativeOverlay(spec.ID, h, names)
	if err != nil {
		fmt.Fprintln(os.Stderr, err)
		return 2
	}
	bin, err := buildTestBinary(spec.ID, h, ov)
	if err != nil {
		fmt.Fprintln(os.Stderr, err)
		return 2
	}
	result, out := replayNativeSched(bin, h, v.Harness, v.Vector, v.Params, h.ReplayTimeout, v.Schedule)
	fmt.Println(out)
	fmt.Println("native result:", result)
	if confirms(&v, result) {
		fmt.Printf("VIOLATION property=%s replay=%s\n", spec.ID, path)
		return 1
	}
	return 0
}

var _ = ssa.InstantiateGenerics

// reportCompileViolation: a template of a translation-validation family is rejected by the compiler of the
// current tree, or its emitted Go does not type-check. The failing compile IS the native reproduction.
func reportCompileViolation(spec *checkSpec, tier string, ce *tvCompileError, t0 time.Time, evPath string) int {
	id := spec.ID
	v := Violation{Harness: "tv-compile", Kind: "compile", Msg: ce.Stage + " failed for a valid template", Replayed: "confirmed",
		Notes: map[string]string{"template": ce.Template, "output": ce.Output}}
	vdir := filepath.Join(verifRoot, "work", id, "violations")
	os.RemoveAll(vdir)
	os.MkdirAll(vdir, 0755)
	p := filepath.Join(vdir, "tv-compile_0.json")
	vb, _ := json.MarshalIndent(v, "", " ")
	os.WriteFile(p, vb, 0644)
	cov := map[string]any{"programs": 0, "disagreements_checked": 1, "samples": []any{v.Notes},
		"rule": spec.Rule, "violations_confirmed": 1,
		"explanation": "the compiler of the current tree rejected a template that is a valid documented program (or emitted Go that does not type-check); no symbolic comparison was run"}
	ev := map[string]any{"property_id": id, "tier": tier, "seed": 0, "level": "translation_validation", "coverage": cov,
		"assumptions": spec.Assumptions, "wall_s": time.Since(t0).Seconds(), "violations": 1}
	b, _ := json.MarshalIndent(ev, "", " ")
	os.WriteFile(evPath, b, 0644)
	fmt.Printf("VIOLATION property=%s replay=%s\n", id, p)
	fmt.Printf("  kind=compile template=%s\n  %s\n", ce.Template, strings.ReplaceAll(strings.TrimSpace(ce.Output), "\n", "\n  "))
	return 1
}
