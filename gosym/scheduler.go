package main

// Goroutine mode: a cooperative scheduler over the interpreter's
// goroutines. Exactly one interpreted goroutine runs at a time; it can be
// pre-empted only at visible operations (go, goroutine exit, mutex
// lock/unlock, Cond wait/signal/broadcast, WaitGroup, channel operations,
// select, runtime.Gosched). At every such point the choice of the next
// goroutine among the enabled ones is a symbolic variable sched_k
// constrained to the enabled set: the explorer forks over its feasible
// values, so a path is one schedule (per data path) and a counter-example
// model contains the schedule. A state with live goroutines none of which is
// enabled is a deadlock (reported unless the harness quiesces on purpose).

import (
	"strings"
	"fmt"
	"go/token"
	"go/types"
	"sort"

	"golang.org/x/tools/go/ssa"
)

type goroutine struct {
	id      int
	resume  chan bool // true: run, false: die
	done    bool
	waitFor func() bool // nil: runnable; otherwise enabled iff waitFor()
	why     string
	depth   int
	isMain  bool
	points  int // number of instrumentation points (vxSchedPoint) this goroutine has passed
}

type schedEvent struct {
	g     *goroutine
	panic any // non-nil: the goroutine ended with this panic
	exit  bool
}

type mutexState struct {
	locked  bool
	readers int
}

type condState struct {
	waiters []*condWaiter
}

type condWaiter struct {
	g     *goroutine
	woken bool
}

type scheduler struct {
	i        *interpreter
	gs       []*goroutine
	cur      *goroutine
	events   chan schedEvent
	nchan    int
	mutexes  map[*value]*mutexState
	conds    map[*value]*condState
	wgs      map[*value]*int
	npicks   int
	dead     bool
	maxPicks int
	trace    []string
	quiesced bool
	preemptions int
	// evlog: the global order in which visible operations took effect, as (goroutine, index of the
	// instrumentation point in front of the operation); the guided native replay follows this order
	evlog []schedPoint
}

type schedPoint struct{ g, k int }

// record notes that the operation behind g's current instrumentation point takes effect now.
func (s *scheduler) record(g *goroutine) {
	if g == nil {
		g = s.cur
	}
	if g == nil {
		return
	}
	p := schedPoint{g.id, g.points}
	if n := len(s.evlog); n > 0 && s.evlog[n-1] == p {
		return
	}
	s.evlog = append(s.evlog, p)
}

func (s *scheduler) scheduleString() string {
	var sb strings.Builder
	for k, p := range s.evlog {
		if k > 0 {
			sb.WriteByte(',')
		}
		fmt.Fprintf(&sb, "%d:%d", p.g, p.k)
	}
	return sb.String()
}

type killed struct{}

func newScheduler(i *interpreter) *scheduler {
	return &scheduler{i: i, events: make(chan schedEvent), mutexes: map[*value]*mutexState{}, conds: map[*value]*condState{},
		wgs: map[*value]*int{}, maxPicks: 400}
}

// runGoroutineMode runs the harness as goroutine 0 under the scheduler.
func runGoroutineMode(i *interpreter, fn *ssa.Function) {
	s := newScheduler(i)
	i.sched = s
	i.lastSchedule = ""
	defer func() {
		// violations detected after the run has ended (an uncaught panic of a goroutine, a budget) still
		// need the schedule for the guided native replay
		i.lastSchedule = s.scheduleString()
		i.sched = nil
	}()
	main := &goroutine{id: 0, resume: make(chan bool), isMain: true}
	s.gs = append(s.gs, main)
	s.start(main, fn, nil)
	s.loop()
}

// start launches the Go goroutine carrying interpreted goroutine g.
func (s *scheduler) start(g *goroutine, fn value, args []value) {
	go func() {
		if !<-g.resume {
			return
		}
		var pv any
		s.record(g) // (g, 0): the goroutine starts running
		func() {
			defer func() { pv = recover() }()
			fr := &frame{i: s.i, g: g}
			call(s.i, fr, token.NoPos, fn, args)
		}()
		if _, isKilled := pv.(killed); isKilled {
			return
		}
		if _, isGoexit := pv.(goexitPanic); isGoexit {
			pv = nil
		}
		g.done = true
		s.events <- schedEvent{g: g, panic: pv, exit: true}
	}()
}

func (s *scheduler) enabled() []*goroutine {
	var out []*goroutine
	for _, g := range s.gs {
		if g.done {
			continue
		}
		if g.waitFor == nil || g.waitFor() {
			out = append(out, g)
		}
	}
	return out
}

func (s *scheduler) describeBlocked() string {
	var parts []string
	for _, g := range s.gs {
		if !g.done {
			parts = append(parts, fmt.Sprintf("g%d:%s", g.id, g.why))
		}
	}
	sort.Strings(parts)
	return fmt.Sprint(parts)
}

// loop is the scheduler proper; it runs on the explorer's goroutine.
func (s *scheduler) loop() {
	defer s.killAll()
	for {
		en := s.enabled()
		if len(en) == 0 {
			alive := 0
			for _, g := range s.gs {
				if !g.done {
					alive++
				}
			}
			if alive == 0 {
				return
			}
			// deadlock: live goroutines, none enabled
			panic(pathEnd{kind: "deadlock", msg: "all goroutines are blocked: " + s.describeBlocked()})
		}
		// pre-emption bounding (CHESS): switching away from a goroutine that could continue is a
		// pre-emption; once the bound PB is used up the running goroutine continues while it can
		if pb, ok := s.i.run.ex.cfg.Params["PB"]; ok && pb >= 0 && s.cur != nil && s.preemptions >= pb {
			for _, g := range en {
				if g == s.cur {
					en = []*goroutine{g}
					break
				}
			}
		}
		g := en[0]
		if len(en) > 1 {
			s.npicks++
			if s.npicks > s.maxPicks {
				panic(pathEnd{kind: "budget", msg: "scheduling decisions exceeded"})
			}
			r := s.i.run
			ts := s.i.ts
			v := r.newVar(64, "sched", fmt.Sprintf("pick among %d enabled", len(en)))
			r.addPC(ts.Cmp(opULt, v, ts.Const(64, uint64(len(en)))))
			k := r.concretize(v)
			if int(k) >= len(en) {
				panic(pathEnd{kind: "assume-false"})
			}
			g = en[k]
		}
		if s.cur != nil && g != s.cur && !s.cur.done {
			for _, e := range en {
				if e == s.cur {
					s.preemptions++
					break
				}
			}
		}
		s.cur = g
		g.waitFor = nil
		s.i.depth = g.depth
		g.resume <- true
		ev := <-s.events
		ev.g.depth = s.i.depth
		if ev.panic != nil {
			panic(ev.panic)
		}
		if ev.exit && ev.g.isMain {
			// the harness returned: remaining goroutines are abandoned (as at process exit)
			return
		}
	}
}

func (s *scheduler) killAll() {
	s.dead = true
	for _, g := range s.gs {
		if !g.done {
			g.done = true
			select {
			case g.resume <- false:
			default:
				// the goroutine is not parked on resume (it is the one that panicked): nothing to do
			}
		}
	}
}

// yield parks the current goroutine until the scheduler resumes it.
// If waitFor is non-nil the goroutine is enabled only when it holds.
func (s *scheduler) park(fr *frame, why string, waitFor func() bool) {
	g := fr.g
	if g == nil {
		g = s.cur
	}
	g.why = why
	g.waitFor = waitFor
	s.events <- schedEvent{g: g}
	if !<-g.resume {
		panic(killed{})
	}
}

func (s *scheduler) yield(fr *frame) { s.park(fr, "yield", nil) }

func (s *scheduler) spawn(fr *frame, fn value, args []value) {
	g := &goroutine{id: len(s.gs), resume: make(chan bool)}
	s.gs = append(s.gs, g)
	s.start(g, fn, args)
	// no pre-emption here: a goroutine that exists but has not been scheduled yet is
	// indistinguishable from one that has not been spawned yet
}

// ---- mutex ---------------------------------------------------------------

func (s *scheduler) mstate(m *value) *mutexState {
	st := s.mutexes[m]
	if st == nil {
		st = &mutexState{}
		s.mutexes[m] = st
	}
	return st
}

func (s *scheduler) lock(fr *frame, m *value) {
	st := s.mstate(m)
	s.park(fr, "Lock", func() bool { return !st.locked && st.readers == 0 })
	st.locked = true
	s.record(fr.g)
}

func (s *scheduler) unlock(fr *frame, m *value) {
	st := s.mstate(m)
	if !st.locked {
		panic(targetPanic{iface{s.i.runtimeErrorString, "sync: unlock of unlocked mutex"}})
	}
	st.locked = false
	s.record(fr.g)
	// releasing a lock nobody waits for enables no goroutine: the next pre-emption point is this
	// goroutine's next visible operation (local steps in between are independent of the others)
	if s.someoneWaits() {
		s.park(fr, "Unlock", nil)
	}
}

// someoneWaits: some other goroutine is currently blocked (its enabledness may have just changed).
func (s *scheduler) someoneWaits() bool {
	for _, g := range s.gs {
		if !g.done && g != s.cur && g.waitFor != nil {
			return true
		}
	}
	return false
}

func (s *scheduler) rlock(fr *frame, m *value) {
	st := s.mstate(m)
	s.park(fr, "RLock", func() bool { return !st.locked })
	st.readers++
}

func (s *scheduler) runlock(fr *frame, m *value) {
	st := s.mstate(m)
	st.readers--
	s.park(fr, "RUnlock", nil)
}

// ---- sync.Cond -------------------------------------------------------------

// condLocker finds the mutex behind c.L (a *sync.Mutex or *sync.RWMutex).
func (s *scheduler) condLocker(fr *frame, c *value) *value {
	st := fr.fn.Signature.Recv().Type().(*types.Pointer).Elem().Underlying().(*types.Struct)
	cs := (*c).(structure)
	for k := 0; k < st.NumFields(); k++ {
		if st.Field(k).Name() == "L" {
			l := cs[k].(iface)
			if l.t == nil {
				s.i.rtPanic("invalid memory address or nil pointer dereference")
			}
			return l.v.(*value)
		}
	}
	panic("sync.Cond without field L")
}

func (s *scheduler) condWait(fr *frame, c *value) {
	m := s.condLocker(fr, c)
	cst := s.conds[c]
	if cst == nil {
		cst = &condState{}
		s.conds[c] = cst
	}
	w := &condWaiter{g: fr.g}
	cst.waiters = append(cst.waiters, w)
	mst := s.mstate(m)
	if !mst.locked {
		panic(targetPanic{iface{s.i.runtimeErrorString, "sync: unlock of unlocked mutex"}})
	}
	mst.locked = false
	s.record(fr.g)
	// atomically: unlock and sleep; after the wake-up, re-acquire the lock
	s.park(fr, "Cond.Wait", func() bool { return w.woken })
	s.park(fr, "Cond.Wait(relock)", func() bool { return !mst.locked && mst.readers == 0 })
	mst.locked = true
}

func (s *scheduler) condSignal(fr *frame, c *value, all bool) {
	woke := false
	s.record(fr.g)
	if cst := s.conds[c]; cst != nil {
		for len(cst.waiters) > 0 {
			w := cst.waiters[0]
			cst.waiters = cst.waiters[1:]
			w.woken = true
			woke = true
			if !all {
				break
			}
		}
	}
	name := "Cond.Signal"
	if all {
		name = "Cond.Broadcast"
	}
	if woke {
		s.park(fr, name, nil)
	}
}

// ---- sync.WaitGroup --------------------------------------------------------

func (s *scheduler) wgCounter(w *value) *int {
	c := s.wgs[w]
	if c == nil {
		c = new(int)
		s.wgs[w] = c
	}
	return c
}

func (s *scheduler) wgAdd(fr *frame, w *value, delta int) {
	c := s.wgCounter(w)
	*c += delta
	s.record(fr.g)
	if *c < 0 {
		panic(targetPanic{iface{s.i.runtimeErrorString, "sync: negative WaitGroup counter"}})
	}
	s.park(fr, "WaitGroup.Add", nil)
}

func (s *scheduler) wgWait(fr *frame, w *value) {
	c := s.wgCounter(w)
	s.record(fr.g)
	s.park(fr, "WaitGroup.Wait", func() bool { return *c == 0 })
}

// ---- channels --------------------------------------------------------------
//
// Every channel operation (plain send/receive or a select) goes through chanOps:
// a pre-emption point, then the ready cases are computed; a case is ready when the
// buffer allows it, the channel is closed, or another goroutine is parked with a
// matching offer (rendezvous). A blocked operation registers one offer per case and
// is completed by its partner.

type chanCase struct {
	c    *gchan
	send bool
	val  value
}

type opState struct {
	done bool
	idx  int
	val  value
	ok   bool
}

type offer struct {
	g    *goroutine
	send bool
	val  value
	st   *opState
	idx  int
}

func (c *gchan) pendingOffer(send bool, notG *goroutine) *offer {
	for _, o := range c.offers {
		if o.send == send && !o.st.done && o.g != notG {
			return o
		}
	}
	return nil
}

func (s *scheduler) caseReady(g *goroutine, cs chanCase) bool {
	c := cs.c
	if c == nil {
		return false
	}
	if c.closed {
		return true
	}
	if cs.send {
		return len(c.buf) < c.cap || c.pendingOffer(false, g) != nil
	}
	return len(c.buf) > 0 || c.pendingOffer(true, g) != nil
}

// complete performs case cs (known to be ready) for goroutine g.
func (s *scheduler) complete(g *goroutine, cs chanCase) (v value, ok bool) {
	c := cs.c
	if cs.send {
		if c.closed {
			panic(targetPanic{iface{s.i.runtimeErrorString, "send on closed channel"}})
		}
		if o := c.pendingOffer(false, g); o != nil && len(c.buf) == 0 {
			o.st.done, o.st.idx, o.st.val, o.st.ok = true, o.idx, cs.val, true
			return nil, false
		}
		c.buf = append(c.buf, cs.val)
		return nil, false
	}
	if len(c.buf) > 0 {
		v = c.buf[0]
		c.buf = c.buf[1:]
		if o := c.pendingOffer(true, g); o != nil {
			c.buf = append(c.buf, o.val)
			o.st.done, o.st.idx = true, o.idx
		}
		return v, true
	}
	if o := c.pendingOffer(true, g); o != nil {
		o.st.done, o.st.idx = true, o.idx
		return o.val, true
	}
	// closed and drained
	return nil, false
}

func (s *scheduler) chanOps(fr *frame, cases []chanCase, blocking bool, why string) (idx int, v value, ok bool) {
	g := fr.g
	s.park(fr, why, nil) // pre-emption point before the operation
	s.record(g)
	readyIdx := func() []int {
		var r []int
		for k, cs := range cases {
			if s.caseReady(g, cs) {
				r = append(r, k)
			}
		}
		return r
	}
	rd := readyIdx()
	if len(rd) == 0 {
		if !blocking {
			return -1, nil, false
		}
		st := &opState{}
		var mine []*offer
		for k, cs := range cases {
			if cs.c == nil {
				continue
			}
			o := &offer{g: g, send: cs.send, val: cs.val, st: st, idx: k}
			cs.c.offers = append(cs.c.offers, o)
			mine = append(mine, o)
		}
		anyClosed := func() bool {
			for _, cs := range cases {
				if cs.c != nil && cs.c.closed {
					return true
				}
			}
			return false
		}
		s.park(fr, why+" (blocked)", func() bool { return st.done || anyClosed() || len(readyIdx()) > 0 })
		// withdraw the offers
		for _, cs := range cases {
			if cs.c == nil {
				continue
			}
			kept := cs.c.offers[:0]
			for _, o := range cs.c.offers {
				if o.st != st {
					kept = append(kept, o)
				}
			}
			cs.c.offers = kept
		}
		_ = mine
		if st.done {
			return st.idx, st.val, st.ok
		}
		rd = readyIdx()
		if len(rd) == 0 {
			panic("scheduler: channel operation resumed but nothing is ready")
		}
	}
	k := rd[0]
	if len(rd) > 1 {
		r := s.i.run
		ts := s.i.ts
		pv := r.newVar(64, "select", fmt.Sprintf("pick among %d ready cases", len(rd)))
		r.addPC(ts.Cmp(opULt, pv, ts.Const(64, uint64(len(rd)))))
		k = rd[r.concretize(pv)]
	}
	v, ok = s.complete(g, cases[k])
	return k, v, ok
}

func (s *scheduler) send(fr *frame, c *gchan, v value) {
	if c == nil {
		s.park(fr, "send on nil channel", func() bool { return false })
	}
	s.chanOps(fr, []chanCase{{c: c, send: true, val: v}}, true, fmt.Sprintf("chan send (chan %d)", c.id))
}

func (s *scheduler) recv(fr *frame, c *gchan) (value, bool) {
	if c == nil {
		s.park(fr, "receive on nil channel", func() bool { return false })
	}
	_, v, ok := s.chanOps(fr, []chanCase{{c: c}}, true, fmt.Sprintf("chan recv (chan %d)", c.id))
	return v, ok
}

func (s *scheduler) closeChan(fr *frame, c *gchan) {
	s.park(fr, "close", nil)
	s.record(fr.g)
	if c.closed {
		panic(targetPanic{iface{s.i.runtimeErrorString, "close of closed channel"}})
	}
	c.closed = true
}

func (s *scheduler) selectStmt(fr *frame, instr *ssa.Select) value {
	var cases []chanCase
	for _, st := range instr.States {
		cs := chanCase{c: fr.get(st.Chan).(*gchan), send: st.Dir == types.SendOnly}
		if cs.send {
			cs.val = fr.get(st.Send)
		}
		cases = append(cases, cs)
	}
	chosen, v, ok := s.chanOps(fr, cases, instr.Blocking, "select")
	r := tuple{chosen, ok}
	for k, st := range instr.States {
		if st.Dir == types.RecvOnly {
			if k == chosen && ok {
				r = append(r, v)
			} else {
				r = append(r, zero(st.Chan.Type().Underlying().(*types.Chan).Elem()))
			}
		}
	}
	return r
}

// quiesce blocks the calling (harness) goroutine until no other goroutine is enabled;
// returns the number of other goroutines that are still alive (blocked).
func (s *scheduler) quiesce(fr *frame) int {
	me := fr.g
	s.park(fr, "quiesce", func() bool {
		for _, g := range s.gs {
			if g == me || g.done {
				continue
			}
			if g.waitFor == nil || g.waitFor() {
				return false
			}
		}
		return true
	})
	n := 0
	for _, g := range s.gs {
		if g != me && !g.done {
			n++
		}
	}
	return n
}

type fsModel struct{}
