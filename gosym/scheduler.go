package main

// Goroutine mode: placeholder types; the symbolic scheduler is filled in
// by scheduler_impl.go.

import (
	"golang.org/x/tools/go/ssa"
)

type goroutine struct {
	id int
}

type scheduler struct {
	nchan int
}

func (s *scheduler) send(fr *frame, c *gchan, v value)          { panic("scheduler: not implemented") }
func (s *scheduler) recv(fr *frame, c *gchan) (value, bool)      { panic("scheduler: not implemented") }
func (s *scheduler) closeChan(fr *frame, c *gchan)               { panic("scheduler: not implemented") }
func (s *scheduler) spawn(fr *frame, fn value, args []value)     { panic("scheduler: not implemented") }
func (s *scheduler) selectStmt(fr *frame, in *ssa.Select) value  { panic("scheduler: not implemented") }

func (s *scheduler) lock(fr *frame, m *value)   {}
func (s *scheduler) unlock(fr *frame, m *value) {}
func (s *scheduler) yield(fr *frame)            {}

func runGoroutineMode(i *interpreter, fn *ssa.Function) { panic("goroutine mode: not implemented") }

type fsModel struct{}
