package main

// Goroutine mode: a cooperative scheduler over the interpreter's
// goroutines. Exactly one interpreted goroutine runs at a time; it can be
// pre-empted only at visible operations (go, goroutine exit, mutex
// lock/unlock, Cond wait/signal/broadcast, WaitGroup, channel operations,
// select, runtime.Gosched). At every such point the choice of the next
// goroutine among the enabled ones is a symbolic variable sched_k
// constrained to the enabled set: the explorer forks over its feasible
// values, so a path is one schedule (per data path) and a counter-example
// model contains the schedule. A state with live goroutines none of which is
// enabled is a deadlock (reported unless the harness quiesces on purpose).

import (
	"fmt"
	"go/token"
	"go/types"
	"sort"

	"golang.org/x/tools/go/ssa"
)

type goroutine struct {
	id      int
	resume  chan bool // true: run, false: die
	done    bool
	waitFor func() bool // nil: runnable; otherwise enabled iff waitFor()
	why     string
	depth   int
	isMain  bool
}

type schedEvent struct {
	g     *goroutine
	panic any // non-nil: the goroutine ended with this panic
	exit  bool
}

type mutexState struct {
	locked  bool
	readers int
}

type condState struct {
	waiters []*condWaiter
}

type condWaiter struct {
	g     *goroutine
	woken bool
}

type scheduler struct {
	i        *interpreter
	gs       []*goroutine
	cur      *goroutine
	events   chan schedEvent
	nchan    int
	mutexes  map[*value]*mutexState
	conds    map[*value]*condState
	wgs      map[*value]*int
	npicks   int
	dead     bool
	maxPicks int
	trace    []string
	quiesced bool
}

type killed struct{}

func newScheduler(i *interpreter) *scheduler {
	return &scheduler{i: i, events: make(chan schedEvent), mutexes: map[*value]*mutexState{}, conds: map[*value]*condState{},
		wgs: map[*value]*int{}, maxPicks: 400}
}

// runGoroutineMode runs the harness as goroutine 0 under the scheduler.
func runGoroutineMode(i *interpreter, fn *ssa.Function) {
	s := newScheduler(i)
	i.sched = s
	defer func() { i.sched = nil }()
	main := &goroutine{id: 0, resume: make(chan bool), isMain: true}
	s.gs = append(s.gs, main)
	s.start(main, fn, nil)
	s.loop()
}

// start launches the Go goroutine carrying interpreted goroutine g.
func (s *scheduler) start(g *goroutine, fn value, args []value) {
	go func() {
		if !<-g.resume {
			return
		}
		var pv any
		func() {
			defer func() { pv = recover() }()
			fr := &frame{i: s.i, g: g}
			call(s.i, fr, token.NoPos, fn, args)
		}()
		if _, isKilled := pv.(killed); isKilled {
			return
		}
		if _, isGoexit := pv.(goexitPanic); isGoexit {
			pv = nil
		}
		g.done = true
		s.events <- schedEvent{g: g, panic: pv, exit: true}
	}()
}

func (s *scheduler) enabled() []*goroutine {
	var out []*goroutine
	for _, g := range s.gs {
		if g.done {
			continue
		}
		if g.waitFor == nil || g.waitFor() {
			out = append(out, g)
		}
	}
	return out
}

func (s *scheduler) describeBlocked() string {
	var parts []string
	for _, g := range s.gs {
		if !g.done {
			parts = append(parts, fmt.Sprintf("g%d:%s", g.id, g.why))
		}
	}
	sort.Strings(parts)
	return fmt.Sprint(parts)
}

// loop is the scheduler proper; it runs on the explorer's goroutine.
func (s *scheduler) loop() {
	defer s.killAll()
	for {
		en := s.enabled()
		if len(en) == 0 {
			alive := 0
			for _, g := range s.gs {
				if !g.done {
					alive++
				}
			}
			if alive == 0 {
				return
			}
			// deadlock: live goroutines, none enabled
			panic(pathEnd{kind: "deadlock", msg: "all goroutines are blocked: " + s.describeBlocked()})
		}
		g := en[0]
		if len(en) > 1 {
			s.npicks++
			if s.npicks > s.maxPicks {
				panic(pathEnd{kind: "budget", msg: "scheduling decisions exceeded"})
			}
			r := s.i.run
			ts := s.i.ts
			v := r.newVar(64, "sched", fmt.Sprintf("pick among %d enabled", len(en)))
			r.addPC(ts.Cmp(opULt, v, ts.Const(64, uint64(len(en)))))
			k := r.concretize(v)
			if int(k) >= len(en) {
				panic(pathEnd{kind: "assume-false"})
			}
			g = en[k]
		}
		s.cur = g
		g.waitFor = nil
		s.i.depth = g.depth
		g.resume <- true
		ev := <-s.events
		ev.g.depth = s.i.depth
		if ev.panic != nil {
			panic(ev.panic)
		}
		if ev.exit && ev.g.isMain {
			// the harness returned: remaining goroutines are abandoned (as at process exit)
			return
		}
	}
}

func (s *scheduler) killAll() {
	s.dead = true
	for _, g := range s.gs {
		if !g.done {
			g.done = true
			select {
			case g.resume <- false:
			default:
				// the goroutine is not parked on resume (it is the one that panicked): nothing to do
			}
		}
	}
}

// yield parks the current goroutine until the scheduler resumes it.
// If waitFor is non-nil the goroutine is enabled only when it holds.
func (s *scheduler) park(fr *frame, why string, waitFor func() bool) {
	g := fr.g
	if g == nil {
		g = s.cur
	}
	g.why = why
	g.waitFor = waitFor
	s.events <- schedEvent{g: g}
	if !<-g.resume {
		panic(killed{})
	}
}

func (s *scheduler) yield(fr *frame) { s.park(fr, "yield", nil) }

func (s *scheduler) spawn(fr *frame, fn value, args []value) {
	g := &goroutine{id: len(s.gs), resume: make(chan bool)}
	s.gs = append(s.gs, g)
	s.start(g, fn, args)
	s.park(fr, "go", nil)
}

// ---- mutex ---------------------------------------------------------------

func (s *scheduler) mstate(m *value) *mutexState {
	st := s.mutexes[m]
	if st == nil {
		st = &mutexState{}
		s.mutexes[m] = st
	}
	return st
}

func (s *scheduler) lock(fr *frame, m *value) {
	st := s.mstate(m)
	s.park(fr, "Lock", func() bool { return !st.locked && st.readers == 0 })
	st.locked = true
}

func (s *scheduler) unlock(fr *frame, m *value) {
	st := s.mstate(m)
	if !st.locked {
		panic(targetPanic{iface{s.i.runtimeErrorString, "sync: unlock of unlocked mutex"}})
	}
	st.locked = false
	s.park(fr, "Unlock", nil)
}

func (s *scheduler) rlock(fr *frame, m *value) {
	st := s.mstate(m)
	s.park(fr, "RLock", func() bool { return !st.locked })
	st.readers++
}

func (s *scheduler) runlock(fr *frame, m *value) {
	st := s.mstate(m)
	st.readers--
	s.park(fr, "RUnlock", nil)
}

// ---- sync.Cond -------------------------------------------------------------

// condLocker finds the mutex behind c.L (a *sync.Mutex or *sync.RWMutex).
func (s *scheduler) condLocker(fr *frame, c *value) *value {
	st := fr.fn.Signature.Recv().Type().(*types.Pointer).Elem().Underlying().(*types.Struct)
	cs := (*c).(structure)
	for k := 0; k < st.NumFields(); k++ {
		if st.Field(k).Name() == "L" {
			l := cs[k].(iface)
			if l.t == nil {
				s.i.rtPanic("invalid memory address or nil pointer dereference")
			}
			return l.v.(*value)
		}
	}
	panic("sync.Cond without field L")
}

func (s *scheduler) condWait(fr *frame, c *value) {
	m := s.condLocker(fr, c)
	cst := s.conds[c]
	if cst == nil {
		cst = &condState{}
		s.conds[c] = cst
	}
	w := &condWaiter{g: fr.g}
	cst.waiters = append(cst.waiters, w)
	mst := s.mstate(m)
	if !mst.locked {
		panic(targetPanic{iface{s.i.runtimeErrorString, "sync: unlock of unlocked mutex"}})
	}
	mst.locked = false
	// atomically: unlock and sleep; after the wake-up, re-acquire the lock
	s.park(fr, "Cond.Wait", func() bool { return w.woken })
	s.park(fr, "Cond.Wait(relock)", func() bool { return !mst.locked && mst.readers == 0 })
	mst.locked = true
}

func (s *scheduler) condSignal(fr *frame, c *value, all bool) {
	if cst := s.conds[c]; cst != nil {
		for len(cst.waiters) > 0 {
			w := cst.waiters[0]
			cst.waiters = cst.waiters[1:]
			w.woken = true
			if !all {
				break
			}
		}
	}
	name := "Cond.Signal"
	if all {
		name = "Cond.Broadcast"
	}
	s.park(fr, name, nil)
}

// ---- sync.WaitGroup --------------------------------------------------------

func (s *scheduler) wgCounter(w *value) *int {
	c := s.wgs[w]
	if c == nil {
		c = new(int)
		s.wgs[w] = c
	}
	return c
}

func (s *scheduler) wgAdd(fr *frame, w *value, delta int) {
	c := s.wgCounter(w)
	*c += delta
	if *c < 0 {
		panic(targetPanic{iface{s.i.runtimeErrorString, "sync: negative WaitGroup counter"}})
	}
	s.park(fr, "WaitGroup.Add", nil)
}

func (s *scheduler) wgWait(fr *frame, w *value) {
	c := s.wgCounter(w)
	s.park(fr, "WaitGroup.Wait", func() bool { return *c == 0 })
}

// ---- channels --------------------------------------------------------------

func (s *scheduler) send(fr *frame, c *gchan, v value) {
	if c == nil {
		s.park(fr, "send on nil channel", func() bool { return false })
	}
	s.park(fr, "chan send", nil) // pre-emption point before the operation
	if c.closed {
		panic(targetPanic{iface{s.i.runtimeErrorString, "send on closed channel"}})
	}
	if len(c.buf) < c.cap {
		c.buf = append(c.buf, v)
		return
	}
	w := &waiter{g: fr.g, val: v}
	c.sendq = append(c.sendq, w)
	s.park(fr, fmt.Sprintf("chan send (blocked, chan %d)", c.id), func() bool { return w.done || c.closed })
	if !w.done {
		// woken by close
		for k, x := range c.sendq {
			if x == w {
				c.sendq = append(c.sendq[:k], c.sendq[k+1:]...)
				break
			}
		}
		panic(targetPanic{iface{s.i.runtimeErrorString, "send on closed channel"}})
	}
}

// tryRecv performs a receive if it can complete now.
func (c *gchan) tryRecv() (v value, ok bool, ready bool) {
	if len(c.buf) > 0 {
		v = c.buf[0]
		c.buf = c.buf[1:]
		if len(c.sendq) > 0 {
			w := c.sendq[0]
			c.sendq = c.sendq[1:]
			c.buf = append(c.buf, w.val)
			w.done = true
		}
		return v, true, true
	}
	if len(c.sendq) > 0 {
		w := c.sendq[0]
		c.sendq = c.sendq[1:]
		w.done = true
		return w.val, true, true
	}
	if c.closed {
		return nil, false, true
	}
	return nil, false, false
}

func (c *gchan) canRecv() bool { return len(c.buf) > 0 || len(c.sendq) > 0 || c.closed }

func (s *scheduler) recv(fr *frame, c *gchan) (value, bool) {
	if c == nil {
		s.park(fr, "receive on nil channel", func() bool { return false })
	}
	c.recvWaiting++
	s.park(fr, fmt.Sprintf("chan recv (chan %d)", c.id), c.canRecv)
	c.recvWaiting--
	v, ok, ready := c.tryRecv()
	if !ready {
		panic("scheduler: receive resumed but not ready")
	}
	return v, ok
}

func (s *scheduler) closeChan(fr *frame, c *gchan) {
	c.closed = true
	s.park(fr, "close", nil)
}

func (s *scheduler) selectStmt(fr *frame, instr *ssa.Select) value {
	type caseInfo struct {
		c    *gchan
		send bool
		val  value
	}
	var cases []caseInfo
	for _, st := range instr.States {
		ci := caseInfo{c: fr.get(st.Chan).(*gchan), send: st.Dir == types.SendOnly}
		if ci.send {
			ci.val = fr.get(st.Send)
		}
		cases = append(cases, ci)
	}
	ready := func() []int {
		var r []int
		for k, ci := range cases {
			if ci.c == nil {
				continue
			}
			if ci.send {
				if ci.c.closed || len(ci.c.buf) < ci.c.cap || ci.c.recvWaiting > 0 {
					r = append(r, k)
				}
			} else if ci.c.canRecv() {
				r = append(r, k)
			}
		}
		return r
	}
	mkResult := func(chosen int, v value, ok bool) value {
		r := tuple{chosen, ok}
		for k, st := range instr.States {
			if st.Dir == types.RecvOnly {
				if k == chosen && ok {
					r = append(r, v)
				} else {
					r = append(r, zero(st.Chan.Type().Underlying().(*types.Chan).Elem()))
				}
			}
		}
		return r
	}
	s.park(fr, "select", nil)
	if !instr.Blocking {
		rd := ready()
		if len(rd) == 0 {
			return mkResult(-1, nil, false)
		}
	}
	// a receiver blocked in select makes unbuffered senders able to proceed
	for _, ci := range cases {
		if ci.c != nil && !ci.send {
			ci.c.recvWaiting++
		}
	}
	s.park(fr, "select (blocked)", func() bool { return len(ready()) > 0 })
	for _, ci := range cases {
		if ci.c != nil && !ci.send {
			ci.c.recvWaiting--
		}
	}
	rd := ready()
	k := rd[0]
	if len(rd) > 1 {
		r := s.i.run
		ts := s.i.ts
		v := r.newVar(64, "select", fmt.Sprintf("pick among %d ready cases", len(rd)))
		r.addPC(ts.Cmp(opULt, v, ts.Const(64, uint64(len(rd)))))
		k = rd[r.concretize(v)]
	}
	ci := cases[k]
	if ci.send {
		if ci.c.closed {
			panic(targetPanic{iface{s.i.runtimeErrorString, "send on closed channel"}})
		}
		if len(ci.c.buf) < ci.c.cap {
			ci.c.buf = append(ci.c.buf, ci.val)
		} else {
			w := &waiter{g: fr.g, val: ci.val}
			ci.c.sendq = append(ci.c.sendq, w)
			s.park(fr, "select send (handoff)", func() bool { return w.done || ci.c.closed })
		}
		return mkResult(k, nil, false)
	}
	v, ok, _ := ci.c.tryRecv()
	return mkResult(k, v, ok)
}

// quiesce blocks the calling (harness) goroutine until no other goroutine is enabled;
// returns the number of other goroutines that are still alive (blocked).
func (s *scheduler) quiesce(fr *frame) int {
	me := fr.g
	s.park(fr, "quiesce", func() bool {
		for _, g := range s.gs {
			if g == me || g.done {
				continue
			}
			if g.waitFor == nil || g.waitFor() {
				return false
			}
		}
		return true
	})
	n := 0
	for _, g := range s.gs {
		if g != me && !g.done {
			n++
		}
	}
	return n
}

type fsModel struct{}
