package main

// Deterministic insertion-ordered map supporting keys with symbolic parts.

import (
	"fmt"
	"go/types"

	"golang.org/x/tools/go/ssa"
)

type gmap struct {
	kt     types.Type
	keys   []value
	vals   []value
	live   []bool
	n      int
	idx    map[int][]int // hash -> positions, concrete keys only
	symPos []int         // positions of entries whose key has symbolic parts
	gen    uint32
}

type mapSnap struct {
	m    *gmap
	copy gmap
}

func (m *gmap) len() int {
	if m == nil {
		return 0
	}
	return m.n
}

func (i *interpreter) makeMap(kt types.Type) *gmap {
	return &gmap{kt: kt, idx: map[int][]int{}, gen: i.runGen}
}

func keyIsSym(k value) bool {
	switch k := k.(type) {
	case *Term, sstring:
		return true
	case structure:
		for _, f := range k {
			if keyIsSym(f) {
				return true
			}
		}
	case array:
		for _, f := range k {
			if keyIsSym(f) {
				return true
			}
		}
	case iface:
		return keyIsSym(k.v)
	}
	return false
}

// touch snapshots a map that pre-exists the current run before its first mutation.
func (i *interpreter) touch(m *gmap) {
	if i.run == nil || m.gen == i.runGen {
		return
	}
	c := *m
	c.keys = append([]value(nil), m.keys...)
	c.vals = append([]value(nil), m.vals...)
	c.live = append([]bool(nil), m.live...)
	c.symPos = append([]int(nil), m.symPos...)
	c.idx = make(map[int][]int, len(m.idx))
	for k, v := range m.idx {
		c.idx[k] = append([]int(nil), v...)
	}
	i.undoMaps = append(i.undoMaps, mapSnap{m: m, copy: c})
	m.gen = i.runGen
}

// find returns the position of key in m or -1; forks on symbolic equalities.
func (i *interpreter) mapFind(m *gmap, key value) int {
	if m == nil {
		return -1
	}
	if !keyIsSym(key) {
		h := hash(m.kt, m.kt, key)
		for _, p := range m.idx[h] {
			if m.live[p] && equals(m.kt, key, m.keys[p]) {
				return p
			}
		}
		for _, p := range m.symPos {
			if m.live[p] && i.truth(i.equalsV(m.kt, key, m.keys[p])) {
				return p
			}
		}
		return -1
	}
	for p := range m.keys {
		if !m.live[p] {
			continue
		}
		c := i.equalsV(m.kt, key, m.keys[p])
		if c == false {
			continue
		}
		if i.truth(c) {
			return p
		}
	}
	return -1
}

func (i *interpreter) mapInsert(m *gmap, key, v value) {
	p := i.mapFind(m, key)
	i.touch(m)
	if p >= 0 {
		m.vals[p] = v
		return
	}
	p = len(m.keys)
	m.keys = append(m.keys, key)
	m.vals = append(m.vals, v)
	m.live = append(m.live, true)
	m.n++
	if keyIsSym(key) {
		m.symPos = append(m.symPos, p)
	} else {
		h := hash(m.kt, m.kt, key)
		m.idx[h] = append(m.idx[h], p)
	}
}

func (i *interpreter) mapDelete(m *gmap, key value) {
	p := i.mapFind(m, key)
	if p < 0 {
		return
	}
	i.touch(m)
	m.live[p] = false
	m.n--
}

func (i *interpreter) mapClear(m *gmap) {
	i.touch(m)
	for p := range m.live {
		m.live[p] = false
	}
	m.n = 0
}

type gmapIter struct {
	i     *interpreter
	m     *gmap
	pos   int
	order []int // optional explicit visiting order (symbolic map order mode)
}

func (it *gmapIter) next() tuple {
	m := it.m
	if m == nil {
		return tuple{false, nil, nil}
	}
	if it.order != nil {
		for it.pos < len(it.order) {
			p := it.order[it.pos]
			it.pos++
			if p < len(m.live) && m.live[p] {
				return tuple{true, m.keys[p], m.vals[p]}
			}
		}
		return tuple{false, nil, nil}
	}
	for it.pos < len(m.keys) {
		p := it.pos
		it.pos++
		if m.live[p] {
			return tuple{true, m.keys[p], m.vals[p]}
		}
	}
	return tuple{false, nil, nil}
}

func (i *interpreter) mapIter(m *gmap) iter {
	it := &gmapIter{i: i, m: m}
	// goroutine mode: the start of a map range is a symbolic choice ("pick any")
	if i.sched != nil && i.run != nil && m != nil && m.n > 1 {
		var livePos []int
		for p := range m.keys {
			if m.live[p] {
				livePos = append(livePos, p)
			}
		}
		r := i.run
		v := r.newVar(64, "maporder", fmt.Sprintf("range start among %d entries", len(livePos)))
		r.addPC(i.ts.Cmp(opULt, v, i.ts.Const(64, uint64(len(livePos)))))
		k := int(r.concretize(v))
		it.order = append(append([]int(nil), livePos[k:]...), livePos[:k]...)
	}
	return it
}

// lookup returns x[idx] where x is a map.
func (i *interpreter) lookup(instr *ssa.Lookup, x, idx value) value {
	m, ok := x.(*gmap)
	if !ok {
		panic(fmt.Sprintf("unexpected x type in Lookup: %T", x))
	}
	var v value
	p := i.mapFind(m, idx)
	found := p >= 0
	if found {
		v = m.vals[p]
	} else {
		v = zero(instr.X.Type().Underlying().(*types.Map).Elem())
	}
	if instr.CommaOk {
		v = tuple{v, found}
	}
	return v
}
