package main

// Symbolic layer of the interpreter: scalars that are SMT terms, strings
// with symbolic bytes, symbolic indices, and the explicit run-time checks
// (bounds, nil, division by zero) that the concrete interpreter left to
// the host's run time.

import (
	"bytes"
	"fmt"
	"go/token"
	"go/types"
	"os"
	"strings"
	"unsafe"

	"golang.org/x/tools/go/ssa"
)

// sstring is a string value at least one of whose bytes is symbolic.
// Elements are uint8 or *Term (width 8). Immutable.
type sstring []value

// symPtr is the address of cells[idx] for a symbolic, in-range idx.
type symPtr struct {
	cells []value
	idx   *Term // width 64
}

func isSigned(t types.Type) bool {
	if b, ok := t.Underlying().(*types.Basic); ok {
		return b.Info()&types.IsUnsigned == 0
	}
	return true
}

// intInfo returns bit width and signedness of an integer/bool basic type.
// Width 0 means bool. ok is false for non-scalar-int types.
func intInfo(t types.Type) (w uint8, signed bool, ok bool) {
	b, isB := t.Underlying().(*types.Basic)
	if !isB {
		return 0, false, false
	}
	switch b.Kind() {
	case types.Bool, types.UntypedBool:
		return 0, false, true
	case types.Int, types.Int64, types.UntypedInt:
		return 64, true, true
	case types.Int8:
		return 8, true, true
	case types.Int16:
		return 16, true, true
	case types.Int32, types.UntypedRune:
		return 32, true, true
	case types.Uint, types.Uint64, types.Uintptr:
		return 64, false, true
	case types.Uint8:
		return 8, false, true
	case types.Uint16:
		return 16, false, true
	case types.Uint32:
		return 32, false, true
	}
	return 0, false, false
}

// scalarBits returns the bit pattern and width of a concrete bool/integer value.
func scalarBits(v value) (bits uint64, w uint8, ok bool) {
	switch v := v.(type) {
	case bool:
		return b2u(v), 0, true
	case int:
		return uint64(v), 64, true
	case int8:
		return uint64(uint8(v)), 8, true
	case int16:
		return uint64(uint16(v)), 16, true
	case int32:
		return uint64(uint32(v)), 32, true
	case int64:
		return uint64(v), 64, true
	case uint:
		return uint64(v), 64, true
	case uint8:
		return uint64(v), 8, true
	case uint16:
		return uint64(v), 16, true
	case uint32:
		return uint64(v), 32, true
	case uint64:
		return v, 64, true
	case uintptr:
		return uint64(v), 64, true
	}
	return 0, 0, false
}

func (i *interpreter) toTerm(v value) *Term {
	if t, ok := v.(*Term); ok {
		return t
	}
	bits, w, ok := scalarBits(v)
	if !ok {
		panic(fmt.Sprintf("toTerm: not a scalar: %T", v))
	}
	return i.ts.Const(w, bits)
}

// fromBits builds the concrete value of basic type t with the given bits.
func fromBits(t types.Type, bits uint64) value {
	b := t.Underlying().(*types.Basic)
	switch b.Kind() {
	case types.Bool, types.UntypedBool:
		return bits != 0
	case types.Int, types.UntypedInt:
		return int(bits)
	case types.Int8:
		return int8(bits)
	case types.Int16:
		return int16(bits)
	case types.Int32, types.UntypedRune:
		return int32(bits)
	case types.Int64:
		return int64(bits)
	case types.Uint:
		return uint(bits)
	case types.Uint8:
		return uint8(bits)
	case types.Uint16:
		return uint16(bits)
	case types.Uint32:
		return uint32(bits)
	case types.Uint64:
		return bits
	case types.Uintptr:
		return uintptr(bits)
	}
	panic("fromBits: " + t.String())
}

// normTerm turns a constant term back into a concrete value of type t.
func normTerm(t types.Type, x *Term) value {
	if x.isConst() {
		return fromBits(t, x.c)
	}
	return x
}

var tBool = types.Typ[types.Bool]
var tInt = types.Typ[types.Int]
var tByte = types.Typ[types.Uint8]
var tRune = types.Typ[types.Int32]

func boolV(x *Term) value {
	if x.isConst() {
		return x.c != 0
	}
	return x
}

// truth decides a boolean value, forking the path on a symbolic one.
func (i *interpreter) truth(v value) bool {
	switch v := v.(type) {
	case bool:
		return v
	case *Term:
		if v.isConst() {
			return v.c != 0
		}
		if i.run == nil {
			panic("symbolic condition outside a path run")
		}
		return i.run.branch(v)
	}
	panic(fmt.Sprintf("truth: %T", v))
}

// concreteInt yields a concrete integer, forking over the feasible values
// of a symbolic one.
func (i *interpreter) concreteInt(v value) int64 {
	return i.concreteIntS(v, true)
}

func (i *interpreter) concreteIntS(v value, signed bool) int64 {
	if t, ok := v.(*Term); ok {
		bits := i.run.concretize(t)
		if signed {
			return sext64(bits, t.w)
		}
		return int64(bits)
	}
	return asInt64(v)
}

func (i *interpreter) andV(x, y value) value {
	if xb, ok := x.(bool); ok {
		if !xb {
			return false
		}
		return y
	}
	if yb, ok := y.(bool); ok {
		if !yb {
			return false
		}
		return x
	}
	return boolV(i.ts.And(x.(*Term), y.(*Term)))
}

func (i *interpreter) notV(x value) value {
	if xb, ok := x.(bool); ok {
		return !xb
	}
	return boolV(i.ts.Not(x.(*Term)))
}

// ---------------------------------------------------------------------
// strings

func isStr(v value) bool {
	switch v.(type) {
	case string, sstring:
		return true
	}
	return false
}

func strLen(v value) int {
	switch v := v.(type) {
	case string:
		return len(v)
	case sstring:
		return len(v)
	}
	panic(fmt.Sprintf("strLen: %T", v))
}

func strAt(v value, k int) value {
	switch v := v.(type) {
	case string:
		return v[k]
	case sstring:
		return v[k]
	}
	panic(fmt.Sprintf("strAt: %T", v))
}

func toSStr(v value) sstring {
	switch v := v.(type) {
	case sstring:
		return v
	case string:
		r := make(sstring, len(v))
		for k := 0; k < len(v); k++ {
			r[k] = v[k]
		}
		return r
	}
	panic(fmt.Sprintf("toSStr: %T", v))
}

// normStr returns a native string when every byte is concrete.
func normStr(s sstring) value {
	for _, b := range s {
		if _, ok := b.(uint8); !ok {
			if t, isT := b.(*Term); isT && t.isConst() {
				continue
			}
			return s
		}
	}
	bs := make([]byte, len(s))
	for k, b := range s {
		switch b := b.(type) {
		case uint8:
			bs[k] = b
		case *Term:
			bs[k] = byte(b.c)
		}
	}
	return string(bs)
}

func (i *interpreter) strEq(x, y value) value {
	if xs, ok := x.(string); ok {
		if ys, ok := y.(string); ok {
			return xs == ys
		}
	}
	if strLen(x) != strLen(y) {
		return false
	}
	acc := i.ts.tt
	for k := 0; k < strLen(x); k++ {
		a, b := strAt(x, k), strAt(y, k)
		if ac, ok := a.(uint8); ok {
			if bc, ok := b.(uint8); ok {
				if ac != bc {
					return false
				}
				continue
			}
		}
		acc = i.ts.And(acc, i.ts.Cmp(opEq, i.toTerm(a), i.toTerm(b)))
		if acc == i.ts.ff {
			return false
		}
	}
	return boolV(acc)
}

// strLess builds x < y (lexicographic, bytewise) for possibly symbolic strings.
func (i *interpreter) strLess(x, y value, orEqual bool) value {
	nx, ny := strLen(x), strLen(y)
	n := nx
	if ny < n {
		n = ny
	}
	// result if all common bytes equal:
	var tail *Term
	if orEqual {
		tail = i.ts.Bool(nx <= ny)
	} else {
		tail = i.ts.Bool(nx < ny)
	}
	acc := tail
	for k := n - 1; k >= 0; k-- {
		a, b := i.toTerm(strAt(x, k)), i.toTerm(strAt(y, k))
		lt := i.ts.Cmp(opULt, a, b)
		eq := i.ts.Cmp(opEq, a, b)
		acc = i.ts.Or(lt, i.ts.And(eq, acc))
	}
	return boolV(acc)
}

func strConcat(x, y value) value {
	if xs, ok := x.(string); ok {
		if ys, ok := y.(string); ok {
			return xs + ys
		}
	}
	a, b := toSStr(x), toSStr(y)
	r := make(sstring, 0, len(a)+len(b))
	r = append(r, a...)
	r = append(r, b...)
	return r
}

// ---------------------------------------------------------------------
// binop / unop / conv with symbolic operands

func hasSym(v value) bool {
	switch v.(type) {
	case *Term, sstring:
		return true
	}
	return false
}

func (i *interpreter) binop(op token.Token, tx, ty types.Type, x, y value) value {
	switch op {
	case token.EQL:
		return i.equalsV(tx, x, y)
	case token.NEQ:
		return i.notV(i.equalsV(tx, x, y))
	}
	if isStr(x) && isStr(y) {
		if _, ok := x.(sstring); !ok {
			if _, ok := y.(sstring); !ok {
				return binopConcrete(op, tx, x, y)
			}
		}
		switch op {
		case token.ADD:
			return strConcat(x, y)
		case token.LSS:
			return i.strLess(x, y, false)
		case token.LEQ:
			return i.strLess(x, y, true)
		case token.GTR:
			return i.strLess(y, x, false)
		case token.GEQ:
			return i.strLess(y, x, true)
		}
		panic("bad string op " + op.String())
	}
	_, xs := x.(*Term)
	_, ys := y.(*Term)
	if !xs && !ys {
		// concrete: explicit run-time checks first
		switch op {
		case token.QUO, token.REM:
			if b, _, ok := scalarBits(y); ok && b == 0 {
				i.rtPanic("integer divide by zero")
			}
		case token.SHL, token.SHR:
			if _, nonneg := asUnsigned(y); !nonneg {
				i.rtPanic("negative shift amount")
			}
		}
		return binopConcrete(op, tx, x, y)
	}
	w, signed, ok := intInfo(tx)
	if !ok {
		i.unsupported("symbolic operand in non-integer binop %s on %s", op, tx)
	}
	ts := i.ts
	xt, yt := i.toTerm(x), i.toTerm(y)
	switch op {
	case token.ADD:
		return normTerm(tx, ts.BinBV(opAdd, xt, yt))
	case token.SUB:
		return normTerm(tx, ts.BinBV(opSub, xt, yt))
	case token.MUL:
		return normTerm(tx, ts.BinBV(opMul, xt, yt))
	case token.QUO, token.REM:
		if i.truth(boolV(ts.Cmp(opEq, yt, ts.Const(w, 0)))) {
			i.rtPanic("integer divide by zero")
		}
		var o Op
		switch {
		case op == token.QUO && signed:
			o = opSDiv
		case op == token.QUO:
			o = opUDiv
		case signed:
			o = opSRem
		default:
			o = opURem
		}
		return normTerm(tx, ts.BinBV(o, xt, yt))
	case token.AND:
		return normTerm(tx, ts.BinBV(opAnd, xt, yt))
	case token.OR:
		return normTerm(tx, ts.BinBV(opOr, xt, yt))
	case token.XOR:
		return normTerm(tx, ts.BinBV(opXor, xt, yt))
	case token.AND_NOT:
		return normTerm(tx, ts.BinBV(opAnd, xt, ts.Not(yt)))
	case token.SHL, token.SHR:
		wy, sy, _ := intInfo(ty)
		if sy {
			if i.truth(boolV(ts.Cmp(opSLt, yt, ts.Const(wy, 0)))) {
				i.rtPanic("negative shift amount")
			}
		}
		var o Op
		switch {
		case op == token.SHL:
			o = opShl
		case signed:
			o = opAShr
		default:
			o = opLShr
		}
		if wy <= w {
			return normTerm(tx, ts.BinBV(o, xt, ts.ZExt(yt, w)))
		}
		big := ts.Cmp(opULe, ts.Const(wy, uint64(w)), yt)
		var over *Term
		if o == opAShr {
			over = ts.BinBV(opAShr, xt, ts.Const(w, uint64(w-1)))
		} else {
			over = ts.Const(w, 0)
		}
		return normTerm(tx, ts.Ite(big, over, ts.BinBV(o, xt, ts.Extract(yt, w-1, 0))))
	case token.LSS, token.LEQ, token.GTR, token.GEQ:
		if op == token.GTR || op == token.GEQ {
			xt, yt = yt, xt
		}
		var o Op
		strict := op == token.LSS || op == token.GTR
		switch {
		case strict && signed:
			o = opSLt
		case strict:
			o = opULt
		case signed:
			o = opSLe
		default:
			o = opULe
		}
		return boolV(ts.Cmp(o, xt, yt))
	}
	panic(fmt.Sprintf("invalid symbolic binary op: %s", op))
}

// equalsV is Go's == for type t, returning bool or a Bool term.
func (i *interpreter) equalsV(t types.Type, x, y value) value {
	switch ut := t.Underlying().(type) {
	case *types.Basic:
		if isStr(x) {
			return i.strEq(x, y)
		}
		_, xs := x.(*Term)
		_, ys := y.(*Term)
		if xs || ys {
			return boolV(i.ts.Cmp(opEq, i.toTerm(x), i.toTerm(y)))
		}
		return equals(t, x, y)
	case *types.Map:
		return (x.(*gmap) != nil) == (y.(*gmap) != nil)
	case *types.Signature:
		return isNilFunc(x) == isNilFunc(y)
	case *types.Slice:
		return (x.([]value) != nil) == (y.([]value) != nil)
	case *types.Struct:
		xs, ys := x.(structure), y.(structure)
		var acc value = true
		for k := range xs {
			if ut.Field(k).Name() == "_" {
				continue
			}
			acc = i.andV(acc, i.equalsV(ut.Field(k).Type(), xs[k], ys[k]))
			if acc == false {
				return false
			}
		}
		return acc
	case *types.Array:
		xs, ys := x.(array), y.(array)
		var acc value = true
		for k := range xs {
			acc = i.andV(acc, i.equalsV(ut.Elem(), xs[k], ys[k]))
			if acc == false {
				return false
			}
		}
		return acc
	case *types.Interface:
		xi, yi := x.(iface), y.(iface)
		if xi.t == nil || yi.t == nil {
			return xi.t == nil && yi.t == nil
		}
		if !types.Identical(xi.t, yi.t) {
			return false
		}
		if !types.Comparable(xi.t) {
			panic(targetPanic{iface{i.runtimeErrorString, "runtime error: comparing uncomparable type " + xi.t.String()}})
		}
		return i.equalsV(xi.t, xi.v, yi.v)
	case *types.Pointer:
		return x.(*value) == y.(*value)
	case *types.Chan:
		return x.(*gchan) == y.(*gchan)
	}
	return equals(t, x, y)
}

func isNilFunc(x value) bool {
	switch x := x.(type) {
	case *ssa.Function:
		return x == nil
	case *closure:
		return x == nil
	case *ssa.Builtin:
		return x == nil
	}
	panic(fmt.Sprintf("isNilFunc: %T", x))
}

func (i *interpreter) unop(fr *frame, instr *ssa.UnOp, x value) value {
	switch instr.Op {
	case token.ARROW:
		return i.chanRecv(fr, instr, x)
	case token.MUL:
		if sp, ok := x.(*symPtr); ok {
			return i.symLoad(sp, deref(instr.X.Type()))
		}
		return load(deref(instr.X.Type()), i.derefPtr(x))
	}
	if t, ok := x.(*Term); ok {
		switch instr.Op {
		case token.SUB:
			return normTerm(instr.Type(), i.ts.Neg(t))
		case token.NOT, token.XOR:
			return normTerm(instr.Type(), i.ts.Not(t))
		}
		panic("bad symbolic unop " + instr.Op.String())
	}
	return unopConcrete(instr, x)
}

func (i *interpreter) conv(tDst, tSrc types.Type, x value) value {
	utSrc := tSrc.Underlying()
	utDst := tDst.Underlying()
	switch x := x.(type) {
	case *Term:
		wd, _, okd := intInfo(tDst)
		_, ss, oks := intInfo(tSrc)
		if okd && oks && wd > 0 {
			if wd <= x.w {
				return normTerm(tDst, i.ts.Extract(x, wd-1, 0))
			}
			if ss {
				return normTerm(tDst, i.ts.SExt(x, wd))
			}
			return normTerm(tDst, i.ts.ZExt(x, wd))
		}
		if b, ok := utDst.(*types.Basic); ok && b.Kind() == types.String && oks {
			// string(rune): encode with the real utf8.AppendRune
			r := x
			if r.w < 32 {
				if ss {
					r = i.ts.SExt(r, 32)
				} else {
					r = i.ts.ZExt(r, 32)
				}
			} else if r.w > 32 {
				// out-of-range values become RuneError
				if i.truth(boolV(i.ts.Cmp(opULt, i.ts.Const(r.w, 0x10FFFF), r))) {
					return "�"
				}
				r = i.ts.Extract(r, 31, 0)
			}
			res := i.callNamed("unicode/utf8", "AppendRune", []value{[]value(nil), normTerm(tRune, r)})
			return i.bytesToString(res.([]value))
		}
		i.unsupported("conversion of symbolic %s to %s", tSrc, tDst)
	case sstring:
		switch d := utDst.(type) {
		case *types.Basic:
			if d.Kind() == types.String {
				return x
			}
		case *types.Slice:
			switch d.Elem().Underlying().(*types.Basic).Kind() {
			case types.Byte:
				res := make([]value, len(x))
				copy(res, x)
				return res
			case types.Rune:
				var res []value
				rest := value(x)
				for strLen(rest) > 0 {
					tup := i.callNamed("unicode/utf8", "DecodeRuneInString", []value{rest}).(tuple)
					res = append(res, tup[0])
					n := int(asInt64(tup[1]))
					rest = i.substr(rest, n, strLen(rest))
				}
				return res
			}
		}
		i.unsupported("conversion of symbolic string to %s", tDst)
	case []value:
		if sl, ok := utSrc.(*types.Slice); ok {
			if b, ok := utDst.(*types.Basic); ok && b.Kind() == types.String {
				switch sl.Elem().Underlying().(*types.Basic).Kind() {
				case types.Byte:
					return i.bytesToString(x)
				case types.Rune:
					anySym := false
					for _, r := range x {
						if _, ok := r.(*Term); ok {
							anySym = true
						}
					}
					if anySym {
						var acc value = []value(nil)
						for _, r := range x {
							acc = i.callNamed("unicode/utf8", "AppendRune", []value{acc, r})
						}
						return i.bytesToString(acc.([]value))
					}
				}
			}
		}
	case unsafe.Pointer:
		i.unsupported("unsafe.Pointer conversion %s -> %s", tSrc, tDst)
	case *value:
		if b, ok := utDst.(*types.Basic); ok && b.Kind() == types.UnsafePointer {
			i.unsupported("conversion to unsafe.Pointer")
		}
	}
	return convConcrete(tDst, tSrc, x)
}

func (i *interpreter) bytesToString(bs []value) value {
	r := make(sstring, len(bs))
	copy(r, bs)
	return normStr(r)
}

func (i *interpreter) substr(s value, lo, hi int) value {
	switch s := s.(type) {
	case string:
		return s[lo:hi]
	case sstring:
		return normStr(s[lo:hi:hi])
	}
	panic("substr")
}

// callNamed interprets pkg.fn(args) from the loaded program.
func (i *interpreter) callNamed(pkgPath, fn string, args []value) value {
	pkg := i.prog.ImportedPackage(pkgPath)
	if pkg == nil {
		i.unsupported("package %s not loaded (needed for %s)", pkgPath, fn)
	}
	f := pkg.Func(fn)
	if f == nil {
		i.unsupported("function %s.%s not found", pkgPath, fn)
	}
	return callSSA(i, nil, token.NoPos, f, args, nil)
}

// ---------------------------------------------------------------------
// memory

func (i *interpreter) store(T types.Type, addr *value, v value) {
	switch T := T.Underlying().(type) {
	case *types.Struct:
		lhs := (*addr).(structure)
		rhs := v.(structure)
		for k := range lhs {
			i.store(T.Field(k).Type(), &lhs[k], rhs[k])
		}
	case *types.Array:
		lhs := (*addr).(array)
		rhs := v.(array)
		for k := range lhs {
			i.store(T.Elem(), &lhs[k], rhs[k])
		}
	default:
		i.logStore(addr)
		*addr = v
	}
}

func isScalarCell(v value) bool {
	switch v.(type) {
	case *Term:
		return true
	}
	_, _, ok := scalarBits(v)
	return ok
}

const maxIteCells = 260

// inRange forks on 0 <= idx < n, raising the index panic on the failing side.
func (i *interpreter) checkIndex(idx *Term, signed bool, n int) {
	ts := i.ts
	var ok *Term
	if signed {
		x := ts.SExt(idx, 64)
		ok = ts.And(ts.Cmp(opSLe, ts.Const(64, 0), x), ts.Cmp(opSLt, x, ts.Const(64, uint64(n))))
	} else {
		x := ts.ZExt(idx, 64)
		ok = ts.Cmp(opULt, x, ts.Const(64, uint64(n)))
	}
	if !i.truth(boolV(ok)) {
		i.rtPanic(fmt.Sprintf("index out of range [symbolic] with length %d", n))
	}
}

func (i *interpreter) symIndexAddr(cells []value, idx *Term, signed bool) value {
	i.checkIndex(idx, signed, len(cells))
	if len(cells) <= maxIteCells {
		all := true
		for _, c := range cells {
			if !isScalarCell(c) {
				all = false
				break
			}
		}
		if all {
			return &symPtr{cells: cells, idx: i.ts.ZExt(idx, 64)}
		}
	}
	k := i.run.concretize(idx)
	return &cells[k]
}

func (i *interpreter) iteChain(idx *Term, n int, at func(k int) *Term) *Term {
	ts := i.ts
	if idx.w < 64 && uint64(n-1) > mask(idx.w) {
		n = int(mask(idx.w)) + 1 // cells beyond the index type's range are unreachable
	}
	acc := at(n - 1)
	for k := n - 2; k >= 0; k-- {
		acc = ts.Ite(ts.Cmp(opEq, idx, ts.Const(idx.w, uint64(k))), at(k), acc)
	}
	return acc
}

func (i *interpreter) symLoad(sp *symPtr, T types.Type) value {
	r := i.iteChain(sp.idx, len(sp.cells), func(k int) *Term { return i.toTerm(sp.cells[k]) })
	return normTerm(T, r)
}

func (i *interpreter) symStore(sp *symPtr, v value) {
	ts := i.ts
	vt := i.toTerm(v)
	for k := range sp.cells {
		old := i.toTerm(sp.cells[k])
		nv := ts.Ite(ts.Cmp(opEq, sp.idx, ts.Const(64, uint64(k))), vt, old)
		i.logStore(&sp.cells[k])
		if nv.isConst() {
			// keep concrete representation of the cell's dynamic type
			sp.cells[k] = reBits(sp.cells[k], v, nv.c)
		} else {
			sp.cells[k] = nv
		}
	}
}

// reBits builds a concrete scalar with the dynamic type of whichever of
// a, b is concrete.
func reBits(a, b value, bits uint64) value {
	for _, x := range []value{a, b} {
		switch x.(type) {
		case bool:
			return bits != 0
		case int:
			return int(bits)
		case int8:
			return int8(bits)
		case int16:
			return int16(bits)
		case int32:
			return int32(bits)
		case int64:
			return int64(bits)
		case uint:
			return uint(bits)
		case uint8:
			return uint8(bits)
		case uint16:
			return uint16(bits)
		case uint32:
			return uint32(bits)
		case uint64:
			return bits
		case uintptr:
			return uintptr(bits)
		}
	}
	panic("reBits: no concrete exemplar")
}

// index implements x[idx] for arrays and strings (values, not addresses).
func (i *interpreter) index(x, idx value, signed bool) value {
	n := 0
	var at func(k int) value
	switch x := x.(type) {
	case array:
		n = len(x)
		at = func(k int) value { return x[k] }
	case string:
		n = len(x)
		at = func(k int) value { return x[k] }
	case sstring:
		n = len(x)
		at = func(k int) value { return x[k] }
	default:
		panic(fmt.Sprintf("unexpected x type in Index: %T", x))
	}
	t, sym := idx.(*Term)
	if !sym {
		k := asInt64(idx)
		if k < 0 || k >= int64(n) {
			i.rtPanic(fmt.Sprintf("index out of range [%d] with length %d", k, n))
		}
		return at(int(k))
	}
	i.checkIndex(t, signed, n)
	if n <= maxIteCells {
		all := true
		for k := 0; k < n; k++ {
			if !isScalarCell(at(k)) {
				all = false
				break
			}
		}
		if all {
			r := i.iteChain(t, n, func(k int) *Term { return i.toTerm(at(k)) })
			if r.isConst() {
				return reBits(at(0), nil, r.c)
			}
			return r
		}
	}
	k := i.run.concretize(t)
	return at(int(k))
}

// slice returns x[lo:hi:max].
func (i *interpreter) slice(instr *ssa.Slice, x, lo, hi, max value) value {
	var Len, Cap int
	switch x := x.(type) {
	case string:
		Len = len(x)
		Cap = Len
	case sstring:
		Len = len(x)
		Cap = Len
	case []value:
		Len = len(x)
		Cap = cap(x)
	case *value: // *array
		if x == nil {
			i.rtPanic("invalid memory address or nil pointer dereference")
		}
		a := (*x).(array)
		Len = len(a)
		Cap = cap(a)
	}
	l := int64(0)
	if lo != nil {
		l = i.concreteIntS(lo, isSigned(instr.Low.Type()))
	}
	h := int64(Len)
	if hi != nil {
		h = i.concreteIntS(hi, isSigned(instr.High.Type()))
	}
	m := int64(Cap)
	if max != nil {
		m = i.concreteIntS(max, isSigned(instr.Max.Type()))
	}
	if m < 0 || m > int64(Cap) {
		i.rtPanic(fmt.Sprintf("slice bounds out of range [::%d] with capacity %d", m, Cap))
	}
	if h < 0 || h > m {
		i.rtPanic(fmt.Sprintf("slice bounds out of range [:%d] with capacity %d", h, m))
	}
	if l < 0 || l > h {
		i.rtPanic(fmt.Sprintf("slice bounds out of range [%d:%d]", l, h))
	}
	switch x := x.(type) {
	case string:
		return x[l:h]
	case sstring:
		return normStr(x[l:h:h])
	case []value:
		return x[l:h:m]
	case *value: // *array
		a := (*x).(array)
		return []value(a)[l:h:m]
	}
	panic(fmt.Sprintf("slice: unexpected X type: %T", x))
}

// ---------------------------------------------------------------------
// builtins

func callBuiltin(caller *frame, callpos token.Pos, fn *ssa.Builtin, args []value) value {
	i := caller.i
	switch fn.Name() {
	case "append":
		if len(args) == 1 {
			return args[0]
		}
		arg0 := args[0].([]value)
		var add []value
		switch a := args[1].(type) {
		case string:
			add = make([]value, len(a))
			for k := 0; k < len(a); k++ {
				add[k] = a[k]
			}
		case sstring:
			add = a
		case []value:
			add = a
		}
		if len(add) == 0 {
			return arg0
		}
		n := len(arg0)
		if n+len(add) <= cap(arg0) {
			res := arg0[:n+len(add)]
			for k := range add {
				i.logStore(&res[n+k])
				res[n+k] = add[k]
			}
			return res
		}
		nc := 2 * cap(arg0)
		if nc < n+len(add) {
			nc = n + len(add)
		}
		res := make([]value, n+len(add), nc)
		copy(res, arg0)
		copy(res[n:], add)
		// spare capacity must hold zero values of the element type
		if nc > n+len(add) {
			elem := fn.Type().(*types.Signature).Params().At(0).Type().Underlying().(*types.Slice).Elem()
			full := res[:nc]
			for k := n + len(add); k < nc; k++ {
				full[k] = zero(elem)
			}
		}
		return res

	case "copy": // copy([]T, []T) int or copy([]byte, string) int
		dst := args[0].([]value)
		var src []value
		switch s := args[1].(type) {
		case string:
			src = toSStr(s)
		case sstring:
			src = s
		case []value:
			src = s
		}
		n := len(dst)
		if len(src) < n {
			n = len(src)
		}
		if n > 0 && len(src) > 0 && &dst[0] != &src[0] {
			tmp := make([]value, n)
			copy(tmp, src[:n])
			for k := 0; k < n; k++ {
				i.logStore(&dst[k])
				dst[k] = tmp[k]
			}
		}
		return n

	case "close": // close(chan T)
		i.chanClose(caller, args[0])
		return nil

	case "delete": // delete(map[K]value, K)
		m := args[0].(*gmap)
		if m != nil {
			i.mapDelete(m, args[1])
		}
		return nil

	case "clear":
		switch x := args[0].(type) {
		case *gmap:
			if x != nil {
				i.mapClear(x)
			}
		case []value:
			elem := fn.Type().(*types.Signature).Params().At(0).Type().Underlying().(*types.Slice).Elem()
			for k := range x {
				i.logStore(&x[k])
				x[k] = zero(elem)
			}
		}
		return nil

	case "print", "println": // print(any, ...)
		ln := fn.Name() == "println"
		if i.run != nil {
			i.run.printed = append(i.run.printed, args...)
			return nil
		}
		var buf bytes.Buffer
		for k, arg := range args {
			if k > 0 && ln {
				buf.WriteRune(' ')
			}
			buf.WriteString(toString(arg))
		}
		if ln {
			buf.WriteRune('\n')
		}
		os.Stderr.Write(buf.Bytes())
		return nil

	case "len":
		switch x := args[0].(type) {
		case string:
			return len(x)
		case sstring:
			return len(x)
		case array:
			return len(x)
		case *value:
			return len((*x).(array))
		case []value:
			return len(x)
		case *gmap:
			return x.len()
		case *gchan:
			return x.length()
		default:
			panic(fmt.Sprintf("len: illegal operand: %T", x))
		}

	case "cap":
		switch x := args[0].(type) {
		case array:
			return cap(x)
		case *value:
			return cap((*x).(array))
		case []value:
			return cap(x)
		case *gchan:
			return x.capacity()
		default:
			panic(fmt.Sprintf("cap: illegal operand: %T", x))
		}

	case "min", "max":
		anySym := false
		for _, a := range args {
			if hasSym(a) {
				anySym = true
			}
		}
		if !anySym {
			if fn.Name() == "min" {
				return foldLeft(min, args)
			}
			return foldLeft(max, args)
		}
		t := fn.Type().(*types.Signature).Params().At(0).Type()
		acc := args[0]
		for _, a := range args[1:] {
			var lt value
			if fn.Name() == "min" {
				lt = i.binop(token.LSS, t, t, a, acc)
			} else {
				lt = i.binop(token.GTR, t, t, a, acc)
			}
			if c, ok := lt.(bool); ok {
				if c {
					acc = a
				}
				continue
			}
			if isStr(acc) {
				if i.truth(lt) {
					acc = a
				}
				continue
			}
			acc = normTerm(t, i.ts.Ite(lt.(*Term), i.toTerm(a), i.toTerm(acc)))
		}
		return acc

	case "panic":
		panic(targetPanic{args[0]})

	case "recover":
		return doRecover(caller)

	case "ssa:wrapnilchk":
		recv := args[0]
		if recv.(*value) == nil {
			recvType := args[1]
			methodName := args[2]
			panic(targetPanic{iface{i.runtimeErrorString, fmt.Sprintf("value method %s.%s called using nil *%s pointer",
				recvType, methodName, recvType)}})
		}
		return recv

	case "ssa:deferstack":
		return &caller.defers
	}

	panic("unknown built-in: " + fn.Name())
}

// ---------------------------------------------------------------------
// iterators

type sstringIter struct {
	i   *interpreter
	s   value
	pos int
}

func (it *sstringIter) next() tuple {
	n := strLen(it.s)
	if it.pos >= n {
		return tuple{false, nil, nil}
	}
	if s, ok := it.s.(string); ok {
		// concrete fast path
		r, sz := decodeRuneInString(s[it.pos:])
		k := it.pos
		it.pos += sz
		return tuple{true, k, r}
	}
	rest := it.i.substr(it.s, it.pos, n)
	tup := it.i.callNamed("unicode/utf8", "DecodeRuneInString", []value{rest}).(tuple)
	k := it.pos
	it.pos += int(asInt64(tup[1]))
	return tuple{true, k, tup[0]}
}

func decodeRuneInString(s string) (rune, int) {
	for _, r := range s {
		n := len(string(r))
		if r == 0xFFFD {
			// either a real U+FFFD (3 bytes) or an invalid byte (1 byte)
			if strings.HasPrefix(s, "�") {
				return r, 3
			}
			return r, 1
		}
		return r, n
	}
	return 0xFFFD, 0
}

func (i *interpreter) rangeIter(fr *frame, x value, t types.Type) iter {
	switch x := x.(type) {
	case *gmap:
		return i.mapIter(x)
	case string, sstring:
		return &sstringIter{i: i, s: x}
	}
	panic(fmt.Sprintf("cannot range over %T", x))
}

// For map, array, *array, slice, string or channel.
type iter interface {
	// next returns a Tuple (ok, key, value).
	next() tuple
}
