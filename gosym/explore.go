package main

// Path exploration by re-execution: a work item is a prefix of decisions
// plus a model (concrete values for all symbolic inputs) that satisfies
// the path condition of that prefix. A run follows its model; at every
// symbolic branch beyond the prefix the solver is asked whether the
// other side is feasible, and if so that side is queued with the model
// the solver returned. Assertions are decided by the solver on each path.

import (
	"fmt"
	"go/token"
	"sort"
	"strconv"
	"strings"
	"sync"
	"time"

	"golang.org/x/tools/go/ssa"
)

type workItem struct {
	prefix []uint64
	model  map[uint64]uint64
}

type inputRec struct {
	Kind  string `json:"kind"`
	Var   uint64 `json:"var"`
	Width uint8  `json:"w"`
	Label string `json:"label,omitempty"`
}

// Violation is a failed obligation together with the concrete inputs that break it.
type Violation struct {
	Harness   string            `json:"harness"`
	Kind      string            `json:"kind"` // assert | panic | budget
	Msg       string            `json:"msg"`
	Vector    []uint64          `json:"vector"` // values of the harness's symbolic inputs, in creation order
	Inputs    []inputRec        `json:"inputs"`
	Params    map[string]int    `json:"params"`
	Decisions int               `json:"decisions"`
	Notes     map[string]string `json:"notes,omitempty"`
	Replayed  string            `json:"replayed,omitempty"` // confirmed | not-reproduced | skipped
	ReplayOut string            `json:"replay_output,omitempty"`
	Known     string            `json:"known_finding,omitempty"`
	// Schedule (goroutine mode): the order in which visible operations took effect, as goroutine:point pairs
	// over the instrumentation points of the harness package; the guided native replay follows it
	Schedule string `json:"schedule,omitempty"`
}

type pathRun struct {
	ex        *Explorer
	w         *worker
	prefix    []uint64
	pos       int
	decisions []uint64
	pc        []*Term
	inputs    []inputRec
	nvars     uint64
	steps     int64
	maxSteps  int64
	reach     map[string]bool
	printed   []value
	asserts   int
	forks     int
	notes     map[string]string
	trace     []string // harness-level trace (vTrace)
	noteVals  []noteVal
	once      map[*value]bool
	pcSet     map[*Term]bool
	known     map[*Term]uint64
	obs       []obsRec // observations for native cross-validation (vxObserve)
	stdout    value    // what fmt.Print* wrote since the last vxStdoutBegin (goroutine-free harnesses)
}

type obsRec struct {
	label string
	val   value
}

type noteVal struct {
	key string
	val value
}

// renderNotes evaluates the harness's notes under model (nil = the run's model).
func (r *pathRun) renderNotes(model map[uint64]uint64) map[string]string {
	ts := r.w.i.ts
	out := map[string]string{}
	if len(r.noteVals) == 0 {
		return out
	}
	old := ts.model
	if model != nil {
		ts.gen++
		ts.model = model
	}
	ev := func(v value) (uint64, bool) {
		if t, ok := v.(*Term); ok {
			return ts.Eval(t), true
		}
		b, _, ok := scalarBits(v)
		return b, ok
	}
	for _, n := range r.noteVals {
		switch v := n.val.(type) {
		case iface:
			n.val = v.v
		}
		switch v := n.val.(type) {
		case string:
			out[n.key] = v
		case sstring, []value:
			cnt, at := seqOf(v)
			bs := make([]byte, cnt)
			for k := 0; k < cnt; k++ {
				b, _ := ev(at(k))
				bs[k] = byte(b)
			}
			out[n.key] = string(bs)
		default:
			if b, ok := ev(v); ok {
				out[n.key] = fmt.Sprint(int64(b))
			}
		}
	}
	if model != nil {
		ts.gen++
		ts.model = old
	}
	return out
}

func (r *pathRun) newVar(w uint8, kind, label string) *Term {
	id := r.nvars
	r.nvars++
	r.inputs = append(r.inputs, inputRec{Kind: kind, Var: id, Width: w, Label: label})
	return r.w.i.ts.Var(id, w)
}

func (r *pathRun) allVars() []*Term {
	vs := make([]*Term, len(r.inputs))
	for k, in := range r.inputs {
		vs[k] = r.w.i.ts.Var(in.Var, in.Width)
	}
	return vs
}

func (r *pathRun) addPC(t *Term) {
	if t.isConst() {
		return
	}
	if r.pcSet == nil {
		r.pcSet = map[*Term]bool{}
	}
	if r.pcSet[t] {
		return
	}
	r.pcSet[t] = true
	r.pc = append(r.pc, t)
}

// branch decides a symbolic condition: follows the run's model and queues
// the other side if the solver finds it feasible.
func (r *pathRun) branch(c *Term) bool {
	ts := r.w.i.ts
	// already decided on this path? (identical condition, hash-consed)
	if r.pcSet[c] {
		return true
	}
	if r.pcSet[ts.Not(c)] {
		return false
	}
	if r.pos < len(r.prefix) {
		d := r.prefix[r.pos]
		r.pos++
		r.decisions = append(r.decisions, d)
		if d != 0 {
			r.addPC(c)
		} else {
			r.addPC(ts.Not(c))
		}
		return d != 0
	}
	mv := ts.Eval(c) != 0
	var this, other *Term
	if mv {
		this, other = c, ts.Not(c)
	} else {
		this, other = ts.Not(c), c
	}
	r.forks++
	verdict, model := r.w.check(r, []*Term{other})
	switch verdict {
	case Sat:
		np := make([]uint64, len(r.decisions)+1)
		copy(np, r.decisions)
		np[len(r.decisions)] = b2u(!mv)
		r.ex.push(workItem{prefix: np, model: model})
	case Unknown:
		r.ex.noteInconclusive("branch feasibility unknown at decision " + fmt.Sprint(len(r.decisions)))
	}
	r.decisions = append(r.decisions, b2u(mv))
	r.pos++
	r.addPC(this)
	return mv
}

const maxConcretize = 600

// concretize forks over all feasible values of t (bounded) and returns the
// value for this run.
func (r *pathRun) concretize(t *Term) uint64 {
	ts := r.w.i.ts
	if t.isConst() {
		return t.c
	}
	if v, ok := r.known[t]; ok {
		return v
	}
	if r.known == nil {
		r.known = map[*Term]uint64{}
	}
	if r.pos < len(r.prefix) {
		d := r.prefix[r.pos]
		r.pos++
		r.decisions = append(r.decisions, d)
		r.addPC(ts.Cmp(opEq, t, ts.Const(t.w, d)))
		r.known[t] = d
		return d
	}
	v0 := ts.Eval(t)
	r.forks++
	excl := []*Term{ts.Not(ts.Cmp(opEq, t, ts.Const(t.w, v0)))}
	for n := 0; ; n++ {
		if n >= maxConcretize {
			r.ex.noteInconclusive(fmt.Sprintf("concretize: more than %d feasible values", maxConcretize))
			break
		}
		verdict, model := r.w.checkWith(r, excl, t)
		if verdict == Unknown {
			r.ex.noteInconclusive("concretize feasibility unknown")
			break
		}
		if verdict == Unsat {
			break
		}
		v := model[^uint64(0)]
		delete(model, ^uint64(0))
		np := make([]uint64, len(r.decisions)+1)
		copy(np, r.decisions)
		np[len(r.decisions)] = v
		r.ex.push(workItem{prefix: np, model: model})
		excl = append(excl, ts.Not(ts.Cmp(opEq, t, ts.Const(t.w, v))))
	}
	r.decisions = append(r.decisions, v0)
	r.pos++
	r.addPC(ts.Cmp(opEq, t, ts.Const(t.w, v0)))
	r.known[t] = v0
	return v0
}

func (r *pathRun) assume(c value) {
	switch c := c.(type) {
	case bool:
		if !c {
			panic(pathEnd{kind: "assume-false"})
		}
	case *Term:
		// An assumption is a branch whose false side is simply dropped.
		ts := r.w.i.ts
		if r.pos < len(r.prefix) {
			// prefix never records assumes; fallthrough to evaluation
		}
		if ts.Eval(c) != 0 {
			r.addPC(c)
			return
		}
		// The run's model violates the assumption: find a model that satisfies it.
		verdict, model := r.w.check(r, []*Term{c})
		if verdict == Sat {
			// restart this path under the new model (same decisions so far)
			np := append([]uint64(nil), r.decisions...)
			r.ex.push(workItem{prefix: np, model: model})
		} else if verdict == Unknown {
			r.ex.noteInconclusive("assume feasibility unknown")
		}
		panic(pathEnd{kind: "assume-false"})
	}
}

// assert discharges an obligation on this path.
func (r *pathRun) assert(c value, msg string) {
	r.asserts++
	switch c := c.(type) {
	case bool:
		r.ex.countObligation(true)
		if !c {
			r.violation("assert", msg, nil)
		}
	case *Term:
		ts := r.w.i.ts
		verdict, model := r.w.check(r, []*Term{ts.Not(c)})
		switch verdict {
		case Unsat:
			r.ex.countObligation(false)
			r.addPC(c)
		case Sat:
			r.violation("assert", msg, model)
		default:
			r.ex.noteInconclusive("assertion undecided: " + msg)
			r.addPC(c)
		}
	}
}

func (r *pathRun) vector(model map[uint64]uint64) []uint64 {
	ts := r.w.i.ts
	vec := make([]uint64, len(r.inputs))
	for k, in := range r.inputs {
		if model != nil {
			vec[k] = model[in.Var] & mask1(in.Width)
		} else {
			vec[k] = ts.Eval(ts.Var(in.Var, in.Width))
		}
	}
	return vec
}

func (r *pathRun) violation(kind, msg string, model map[uint64]uint64) {
	v := Violation{Harness: r.ex.cfg.Harness, Kind: kind, Msg: msg, Vector: r.vector(model), Inputs: append([]inputRec(nil), r.inputs...),
		Params: r.ex.cfg.Params, Decisions: len(r.decisions), Notes: r.renderNotes(model)}
	if sc := r.w.i.sched; sc != nil {
		v.Schedule = sc.scheduleString()
	} else if r.ex.cfg.Goroutine {
		v.Schedule = r.w.i.lastSchedule
	}
	r.ex.addViolation(v)
	panic(pathEnd{kind: "violation", msg: msg})
}

// ---------------------------------------------------------------------

type worker struct {
	id     int
	i      *interpreter
	solver *Solver
	ex     *Explorer
}

func (w *worker) check(r *pathRun, extra []*Term) (Verdict, map[uint64]uint64) {
	return w.solver.Check(r.pc, extra, r.allVars())
}

// checkWith also reports the value of t in the model (under key ^0).
func (w *worker) checkWith(r *pathRun, extra []*Term, t *Term) (Verdict, map[uint64]uint64) {
	ts := w.i.ts
	// introduce an auxiliary variable equal to t so that its value is part of the model
	aux := ts.Var(1<<40+uint64(t.id), t.w)
	ex2 := append(append([]*Term(nil), extra...), ts.Cmp(opEq, aux, t))
	vars := append(r.allVars(), aux)
	verdict, model := w.solver.Check(r.pc, ex2, vars)
	if verdict == Sat {
		model[^uint64(0)] = model[aux.c]
		delete(model, aux.c)
	}
	return verdict, model
}

type ExploreConfig struct {
	Harness   string
	Pkg       *ssa.Package
	Fn        *ssa.Function
	Params    map[string]int
	Workers   int
	MaxSteps  int64
	MaxPaths  int64
	Deadline  time.Time
	Goroutine bool
	Trace     bool
	// PanicOK: an uncaught target panic is not a violation (harness handles panics itself)
	PanicIsViolation bool
	BudgetIsViolation bool
	WantInit  map[string]bool
	Setup     func(i *interpreter)
}

type Explorer struct {
	cfg  ExploreConfig
	prog *ssa.Program

	mu      sync.Mutex
	cond    *sync.Cond
	stack   []workItem
	active  int
	stopped bool

	// statistics
	paths         map[string]int64 // by end kind
	forks         int64
	obligations   int64
	trivialObl    int64
	violations    []Violation
	inconclusive  map[string]int
	unsupported   map[string]int
	reach         map[string]int64
	steps         int64
	queries       int64
	solverErrs    int64
	solverWall    time.Duration
	fnCount       map[string]int64
	samples       []map[string]any
	maxDecisions  int
	initFail      map[string]string
	truncated     bool
	startT        time.Time
	vioKeys       map[string]bool
	crossVal      []crossRec
	cvStride      int64
}

type crossRec struct {
	vector []uint64
	end    string
	obs    string
}

// nativeVector keeps the values the native harness consumes (its own vx* inputs) and drops
// the engine-internal choices (scheduler picks, select picks, map-range starts).
func nativeVector(vec []uint64, inputs []inputRec) []uint64 {
	var out []uint64
	for k, v := range vec {
		if k < len(inputs) {
			switch inputs[k].Kind {
			case "sched", "select", "maporder":
				continue
			}
		}
		out = append(out, v)
	}
	return out
}

const maxCrossVal = 16

// renderObs renders the harness's observations under the run's model in
// the same format the native runtime prints them.
func (r *pathRun) renderObs() string {
	ts := r.w.i.ts
	var sb strings.Builder
	for _, o := range r.obs {
		sb.WriteString(o.label)
		sb.WriteByte('=')
		v := o.val
		if itf, ok := v.(iface); ok {
			v = itf.v
		}
		switch x := v.(type) {
		case bool:
			fmt.Fprint(&sb, x)
		case string:
			sb.WriteString(strconv.Quote(x))
		case sstring, []value:
			n, at := seqOf(x)
			bs := make([]byte, n)
			for k := 0; k < n; k++ {
				e := at(k)
				if t, ok := e.(*Term); ok {
					bs[k] = byte(ts.Eval(t))
				} else {
					b, _, _ := scalarBits(e)
					bs[k] = byte(b)
				}
			}
			sb.WriteString(strconv.Quote(string(bs)))
		case *Term:
			if x.w == 0 {
				fmt.Fprint(&sb, ts.Eval(x) != 0)
			} else {
				fmt.Fprint(&sb, sext64(ts.Eval(x), x.w))
			}
		default:
			if b, w, ok := scalarBits(x); ok {
				switch x.(type) {
				case uint, uint8, uint16, uint32, uint64, uintptr:
					fmt.Fprint(&sb, b)
				default:
					fmt.Fprint(&sb, sext64(b, w))
				}
			} else {
				fmt.Fprintf(&sb, "<%T>", x)
			}
		}
		sb.WriteByte(';')
	}
	return sb.String()
}

func NewExplorer(prog *ssa.Program, cfg ExploreConfig) *Explorer {
	ex := &Explorer{cfg: cfg, prog: prog, paths: map[string]int64{}, inconclusive: map[string]int{}, unsupported: map[string]int{},
		reach: map[string]int64{}, fnCount: map[string]int64{}, initFail: map[string]string{}, vioKeys: map[string]bool{}}
	ex.cond = sync.NewCond(&ex.mu)
	return ex
}

func (ex *Explorer) push(it workItem) {
	ex.mu.Lock()
	ex.stack = append(ex.stack, it)
	ex.mu.Unlock()
	ex.cond.Signal()
}

func (ex *Explorer) pop() (workItem, bool) {
	ex.mu.Lock()
	defer ex.mu.Unlock()
	for {
		if ex.stopped {
			return workItem{}, false
		}
		if n := len(ex.stack); n > 0 {
			it := ex.stack[n-1]
			ex.stack = ex.stack[:n-1]
			ex.active++
			return it, true
		}
		if ex.active == 0 {
			ex.cond.Broadcast()
			return workItem{}, false
		}
		ex.cond.Wait()
	}
}

func (ex *Explorer) done() {
	ex.mu.Lock()
	ex.active--
	if ex.active == 0 && len(ex.stack) == 0 {
		ex.cond.Broadcast()
	}
	ex.mu.Unlock()
}

func (ex *Explorer) noteInconclusive(msg string) {
	ex.mu.Lock()
	ex.inconclusive[msg]++
	ex.mu.Unlock()
}

func (ex *Explorer) countObligation(trivial bool) {
	ex.mu.Lock()
	ex.obligations++
	if trivial {
		ex.trivialObl++
	}
	ex.mu.Unlock()
}

func (ex *Explorer) addViolation(v Violation) {
	ex.mu.Lock()
	defer ex.mu.Unlock()
	key := v.Kind + "|" + v.Msg
	// keep at most 3 witnesses per distinct message
	n := 0
	for _, o := range ex.violations {
		if o.Kind+"|"+o.Msg == key {
			n++
		}
	}
	if n < 3 {
		ex.violations = append(ex.violations, v)
	}
	ex.vioKeys[key] = true
}

func describePanic(p targetPanic) string {
	s := toString(p.v)
	if len(s) > 300 {
		s = s[:300]
	}
	return s
}

// runOne executes one path.
func (w *worker) runOne(it workItem) {
	ex := w.ex
	i := w.i
	i.runGen++
	i.ts.NewRun(it.model)
	r := &pathRun{ex: ex, w: w, prefix: it.prefix, maxSteps: ex.cfg.MaxSteps, reach: map[string]bool{}, notes: map[string]string{}}
	i.run = r
	i.undo = i.undo[:0]
	i.undoMaps = i.undoMaps[:0]
	i.depth = 0
	i.trace = ex.cfg.Trace
	w.solver.BeginRun()
	endKind, endMsg := "done", ""
	func() {
		defer func() {
			p := recover()
			if p == nil {
				return
			}
			switch p := p.(type) {
			case pathEnd:
				endKind, endMsg = p.kind, p.msg
			case targetPanic:
				endKind, endMsg = "panic", describePanic(p)
			default:
				endKind, endMsg = "unsupported", fmt.Sprintf("engine crash: %v", p)
			}
		}()
		if ex.cfg.Goroutine {
			runGoroutineMode(i, ex.cfg.Fn)
		} else {
			call(i, nil, token.NoPos, ex.cfg.Fn, nil)
		}
	}()
	if endKind == "panic" && ex.cfg.PanicIsViolation {
		func() {
			defer func() { recover() }()
			r.violation("panic", "uncaught panic: "+endMsg, nil)
		}()
		endKind = "violation"
	}
	if endKind == "exit" && ex.cfg.PanicIsViolation && endMsg != "0" {
		// library code that ends the process (log.Fatal, os.Exit(n != 0)) is a crash like an uncaught panic
		func() {
			defer func() { recover() }()
			r.violation("panic", "the code under test exits the process ("+endMsg+")", nil)
		}()
		endKind = "violation"
	}
	if endKind == "budget" && ex.cfg.BudgetIsViolation {
		func() {
			defer func() { recover() }()
			r.violation("budget", endMsg, nil)
		}()
		endKind = "violation"
	}
	w.solver.EndRun()
	// undo effects on shared memory
	for k := len(i.undo) - 1; k >= 0; k-- {
		*i.undo[k].addr = i.undo[k].old
	}
	for k := len(i.undoMaps) - 1; k >= 0; k-- {
		s := i.undoMaps[k]
		*s.m = s.copy
	}
	i.undo = i.undo[:0]
	i.undoMaps = i.undoMaps[:0]
	i.run = nil

	ex.mu.Lock()
	ex.paths[endKind]++
	ex.forks += int64(r.forks)
	ex.steps += r.steps
	if len(r.decisions) > ex.maxDecisions {
		ex.maxDecisions = len(r.decisions)
	}
	for k := range r.reach {
		ex.reach[k]++
	}
	switch endKind {
	case "unsupported":
		m := endMsg
		if len(m) > 600 {
			m = m[:600]
		}
		ex.unsupported[m]++
	case "budget":
		ex.inconclusive["budget: "+endMsg]++
	case "panic":
		ex.inconclusive["uncaught panic (not configured as violation): "+endMsg]++
	case "exit":
		ex.inconclusive["process exit (not configured as violation): "+endMsg]++
	}
	total := int64(0)
	for _, n := range ex.paths {
		total += n
	}
	if endKind == "done" || endKind == "panic" {
		if ex.cvStride == 0 {
			ex.cvStride = 1
		}
		if total%ex.cvStride == 0 {
			if len(ex.crossVal) >= maxCrossVal {
				// thin out: keep every other record, double the stride
				var keep []crossRec
				for k, c := range ex.crossVal {
					if k%2 == 0 {
						keep = append(keep, c)
					}
				}
				ex.crossVal = keep
				ex.cvStride *= 2
			}
			if total%ex.cvStride == 0 {
				ex.crossVal = append(ex.crossVal, crossRec{vector: nativeVector(r.vector(nil), r.inputs), end: endKind, obs: r.renderObs()})
			}
		}
	}
	if len(ex.samples) < 8 && (endKind == "done") && (total%7 == 1 || len(ex.samples) < 2) {
		ex.samples = append(ex.samples, r.sample(endKind))
	}
	if ex.cfg.MaxPaths > 0 && total >= ex.cfg.MaxPaths && !ex.stopped {
		ex.stopped = true
		ex.truncated = true
		ex.cond.Broadcast()
	}
	if !ex.cfg.Deadline.IsZero() && time.Now().After(ex.cfg.Deadline) && !ex.stopped {
		ex.stopped = true
		ex.truncated = true
		ex.cond.Broadcast()
	}
	ex.mu.Unlock()
}

func (r *pathRun) sample(end string) map[string]any {
	vec := r.vector(nil)
	var pcs []string
	for k, c := range r.pc {
		if k >= 6 {
			pcs = append(pcs, fmt.Sprintf("... %d more", len(r.pc)-k))
			break
		}
		pcs = append(pcs, c.String())
	}
	return map[string]any{"end": end, "decisions": len(r.decisions), "inputs_model": vec, "path_condition": pcs, "asserts": r.asserts, "instructions": r.steps}
}

// workerPool keeps initialised workers (interpreter with package init done,
// solver process) alive across explorations of the same program.
type workerPool struct {
	prog    *ssa.Program
	pkg     *ssa.Package
	workers []*worker
	want    map[string]bool
	setup   func(i *interpreter)
	initS   float64
}

func newWorkerPool(prog *ssa.Program, pkg *ssa.Package, n int, want map[string]bool, setup func(i *interpreter)) (*workerPool, error) {
	w2 := map[string]bool{pkg.Pkg.Path(): true} // the harness's package is always initialised
	for k, v := range want {
		w2[k] = v
	}
	want = w2
	p := &workerPool{prog: prog, pkg: pkg, want: want, setup: setup}
	if n <= 0 {
		n = 1
	}
	t0 := time.Now()
	p.workers = make([]*worker, n)
	errs := make([]error, n)
	var wg sync.WaitGroup
	for k := 0; k < n; k++ {
		wg.Add(1)
		go func(id int) {
			defer wg.Done()
			i := newInterpreter(prog, sizes64)
			i.fnCount = map[*ssa.Function]int64{}
			i.initPackage(pkg, want)
			if setup != nil {
				setup(i)
			}
			s, err := NewSolver("z3")
			if err != nil {
				errs[id] = err
				return
			}
			p.workers[id] = &worker{id: id, i: i, solver: s}
		}(k)
	}
	wg.Wait()
	for _, e := range errs {
		if e != nil {
			return nil, e
		}
	}
	p.initS = time.Since(t0).Seconds()
	return p, nil
}

func (p *workerPool) Close() {
	for _, w := range p.workers {
		if w != nil {
			w.solver.Close()
		}
	}
}

// Run explores all paths of the harness with a private pool.
func (ex *Explorer) Run() error {
	pool, err := newWorkerPool(ex.prog, ex.cfg.Pkg, ex.cfg.Workers, ex.cfg.WantInit, ex.cfg.Setup)
	if err != nil {
		return err
	}
	defer pool.Close()
	return ex.RunWith(pool)
}

// RunWith explores all paths of the harness on the given pool.
func (ex *Explorer) RunWith(pool *workerPool) error {
	ex.startT = time.Now()
	ex.push(workItem{})
	var wg sync.WaitGroup
	for _, w := range pool.workers {
		wg.Add(1)
		go func(w *worker) {
			defer wg.Done()
			w.ex = ex
			q0, e0, w0 := w.solver.queries, w.solver.errs, w.solver.wall
			for f := range w.i.fnCount {
				delete(w.i.fnCount, f)
			}
			for {
				it, ok := ex.pop()
				if !ok {
					break
				}
				w.runOne(it)
				ex.done()
			}
			ex.mu.Lock()
			ex.queries += int64(w.solver.queries - q0)
			ex.solverErrs += int64(w.solver.errs - e0)
			ex.solverWall += w.solver.wall - w0
			for fn, n := range w.i.fnCount {
				ex.fnCount[fn.String()] += n
			}
			for p, m := range w.i.initFail {
				if !strings.HasPrefix(m, "skipped") {
					ex.initFail[p.Pkg.Path()] = m
				}
			}
			ex.mu.Unlock()
		}(w)
	}
	wg.Wait()
	return nil
}

func (ex *Explorer) totalPaths() int64 {
	var n int64
	for _, c := range ex.paths {
		n += c
	}
	return n
}

func (ex *Explorer) topFunctions(n int) []string {
	type kv struct {
		k string
		v int64
	}
	var l []kv
	for k, v := range ex.fnCount {
		l = append(l, kv{k, v})
	}
	sort.Slice(l, func(a, b int) bool { return l[a].v > l[b].v })
	var out []string
	for k, e := range l {
		if k >= n {
			break
		}
		out = append(out, fmt.Sprintf("%s:%d", e.k, e.v))
	}
	return out
}
