package main

// Translation validation (shape D): XGo templates are compiled to Go by the
// compiler of /repo's current working tree (tvhelper, built from /repo at check
// time); the emitted Go, a hand-written Go reference and the harness form one
// generated package under /verif/work/tv/<id>, which the engine loads like any
// other package. The harness runs the emitted and the reference function on the
// same symbolic arguments.

import (
	"fmt"
	"os"
	"os/exec"
	"path/filepath"
	"strings"
)

func tvDir(id string) string { return filepath.Join(verifRoot, "work", "tv", id) }

// prepareTV builds the helper, compiles every template of harness/tv/<lower id>/ and
// assembles the generated package. It returns the number of templates compiled.
func prepareTV(id string) (int, error) {
	lid := strings.ToLower(id)
	src := filepath.Join(verifRoot, "harness", "tv", lid)
	dir := tvDir(id)
	os.RemoveAll(dir)
	if err := os.MkdirAll(dir, 0755); err != nil {
		return 0, err
	}
	// helper, rebuilt against the current tree
	hdir := filepath.Join(verifRoot, "tvhelper")
	sum, err := os.ReadFile(filepath.Join(repoRoot, "go.sum"))
	if err != nil {
		return 0, err
	}
	os.WriteFile(filepath.Join(hdir, "go.sum"), sum, 0644)
	helper := filepath.Join(verifRoot, "work", "tvhelper")
	cmd := exec.Command("go", "build", "-o", helper, ".")
	cmd.Dir = hdir
	cmd.Env = goEnv()
	if out, err := cmd.CombinedOutput(); err != nil {
		return 0, fmt.Errorf("building tvhelper: %v\n%s", err, out)
	}
	ents, err := os.ReadDir(src)
	if err != nil {
		return 0, err
	}
	n := 0
	for _, e := range ents {
		name := e.Name()
		switch {
		case e.IsDir():
			// a directory template (class files): compiled as one package
			out := filepath.Join(dir, "xgo_"+name+".go")
			c := exec.Command(helper, "dir", filepath.Join(src, name), out)
			c.Env = goEnv()
			c.Dir = hdir // imports of the XGo builtins are resolved in the helper's module
			if o, err := c.CombinedOutput(); err != nil {
				return n, fmt.Errorf("compiling template dir %s: %v\n%s", name, err, o)
			}
			n++
		case strings.HasSuffix(name, ".xgo"):
			out := filepath.Join(dir, "xgo_"+strings.TrimSuffix(name, ".xgo")+".go")
			c := exec.Command(helper, "file", filepath.Join(src, name), out)
			c.Env = goEnv()
			c.Dir = hdir
			if o, err := c.CombinedOutput(); err != nil {
				return n, fmt.Errorf("compiling template %s: %v\n%s", name, err, o)
			}
			n++
		case strings.HasSuffix(name, ".gotmpl"):
			// a Go program used twice: as XGo source (names X_...) through the compiler,
			// and as plain Go (names R_...) as the reference
			b, err := os.ReadFile(filepath.Join(src, name))
			if err != nil {
				return n, err
			}
			base := strings.TrimSuffix(name, ".gotmpl")
			xsrc := filepath.Join(dir, "tmpl_"+base+".xgo")
			os.WriteFile(xsrc, []byte(strings.ReplaceAll(string(b), "P_", "X_")), 0644)
			out := filepath.Join(dir, "xgo_"+base+".go")
			c := exec.Command(helper, "file", xsrc, out)
			c.Env = goEnv()
			c.Dir = hdir
			if o, err := c.CombinedOutput(); err != nil {
				return n, fmt.Errorf("compiling template %s as XGo: %v\n%s", name, err, o)
			}
			os.Remove(xsrc)
			os.WriteFile(filepath.Join(dir, "ref_"+base+".go"), []byte(strings.ReplaceAll(string(b), "P_", "R_")), 0644)
			n++
		case strings.HasSuffix(name, ".go"):
			b, err := os.ReadFile(filepath.Join(src, name))
			if err != nil {
				return n, err
			}
			os.WriteFile(filepath.Join(dir, name), b, 0644)
		}
	}
	// emitted files: drop //line directives (positions are not part of these checks) and a
	// generated main function would clash with nothing (the package is only tested, never run)
	outs, _ := filepath.Glob(filepath.Join(dir, "xgo_*.go"))
	for _, f := range outs {
		b, _ := os.ReadFile(f)
		var keep []string
		for _, line := range strings.Split(string(b), "\n") {
			if strings.HasPrefix(line, "//line ") {
				continue
			}
			keep = append(keep, line)
		}
		os.WriteFile(f, []byte(strings.Join(keep, "\n")), 0644)
	}
	rt, err := os.ReadFile(filepath.Join(verifRoot, "harness", "rt", "vx_rt.go.txt"))
	if err != nil {
		return n, err
	}
	os.WriteFile(filepath.Join(dir, "zz_vx_rt.go"), []byte(strings.Replace(string(rt), "package PKG", "package main", 1)), 0644)
	gomod, err := os.ReadFile(filepath.Join(repoRoot, "go.mod"))
	if err != nil {
		return n, err
	}
	// same requirements as the repo, plus the repo itself
	mod := "module vxtv\n\ngo 1.18\n\nrequire github.com/goplus/xgo v0.0.0\n\nreplace github.com/goplus/xgo => " + repoRoot + "\n"
	_ = gomod
	os.WriteFile(filepath.Join(dir, "go.mod"), []byte(mod), 0644)
	os.WriteFile(filepath.Join(dir, "go.sum"), sum, 0644)
	tidy := exec.Command("go", "mod", "tidy")
	tidy.Dir = dir
	tidy.Env = goEnv()
	if o, err := tidy.CombinedOutput(); err != nil {
		return n, fmt.Errorf("go mod tidy in %s: %v\n%s", dir, err, o)
	}
	return n, nil
}
