package main

// Translation validation (shape D): XGo templates are compiled to Go by the
// compiler of /repo's current working tree (tvhelper, built from /repo at check
// time); the emitted Go, a hand-written Go reference and the harness form one
// generated package under /verif/work/tv/<id>, which the engine loads like any
// other package. The harness runs the emitted and the reference function on the
// same symbolic arguments.

import (
	"fmt"

	"golang.org/x/tools/go/packages"
	"os"
	"os/exec"
	"path/filepath"
	"strings"
)

// tvKF: outcome of the isolated known-finding templates (kf_*.gostyle) of the last prepareTV(id)
type tvKFResult struct {
	Template string
	Failed   bool
	Output   string
}

var tvKF = map[string][]tvKFResult{}

func tvDir(id string) string { return filepath.Join(verifRoot, "work", "tv", id) }

// tvCompileError: the compiler of the current tree rejected a template (all templates are valid,
// documented programs that the pinned tree compiles), or emitted Go that does not type-check.
// Either is a violation of the property the template family belongs to, not an infrastructure error.
type tvCompileError struct {
	Template string
	Stage    string // "xgo compile" | "emitted Go type-check"
	Output   string
}

func (e *tvCompileError) Error() string {
	return fmt.Sprintf("%s of template %s failed:\n%s", e.Stage, e.Template, e.Output)
}

// prepareTV builds the helper, compiles every template of harness/tv/<lower id>/ and
// assembles the generated package. It returns the number of templates compiled.
func prepareTV(id string) (int, error) {
	lid := strings.ToLower(id)
	src := filepath.Join(verifRoot, "harness", "tv", lid)
	dir := tvDir(id)
	delete(tvKF, id)
	os.RemoveAll(dir)
	if err := os.MkdirAll(dir, 0755); err != nil {
		return 0, err
	}
	// helper, rebuilt against the current tree
	hdir := filepath.Join(verifRoot, "tvhelper")
	sum, err := os.ReadFile(filepath.Join(repoRoot, "go.sum"))
	if err != nil {
		return 0, err
	}
	os.WriteFile(filepath.Join(hdir, "go.sum"), sum, 0644)
	helper := filepath.Join(verifRoot, "work", "tvhelper")
	cmd := exec.Command("go", "build", "-o", helper, ".")
	cmd.Dir = hdir
	cmd.Env = goEnv()
	if out, err := cmd.CombinedOutput(); err != nil {
		return 0, fmt.Errorf("building tvhelper: %v\n%s", err, out)
	}
	ents, err := os.ReadDir(src)
	if err != nil {
		return 0, err
	}
	n := 0
	for _, e := range ents {
		name := e.Name()
		switch {
		case e.IsDir():
			// a directory template (class files): compiled as one package
			out := filepath.Join(dir, "xgo_"+name+".go")
			c := exec.Command(helper, "dir", filepath.Join(src, name), out)
			c.Env = goEnv()
			c.Dir = hdir // imports of the XGo builtins are resolved in the helper's module
			if o, err := c.CombinedOutput(); err != nil {
				return n, tvErr(name, err, o)
			}
			n++
		case strings.HasSuffix(name, ".xgo") && strings.HasPrefix(name, "kf_"):
			// template of an open known finding (see the .gostyle case below): compiled in isolation
			out := filepath.Join(dir, "kf_tmp_out.go")
			c := exec.Command(helper, "file", filepath.Join(src, name), out)
			c.Env = goEnv()
			c.Dir = hdir
			o, err := c.CombinedOutput()
			tvKF[id] = append(tvKF[id], tvKFResult{Template: name, Failed: err != nil, Output: strings.TrimSpace(string(o))})
			os.Remove(out)
		case strings.HasSuffix(name, ".xgo"):
			out := filepath.Join(dir, "xgo_"+strings.TrimSuffix(name, ".xgo")+".go")
			c := exec.Command(helper, "file", filepath.Join(src, name), out)
			c.Env = goEnv()
			c.Dir = hdir
			if o, err := c.CombinedOutput(); err != nil {
				return n, tvErr(name, err, o)
			}
			n++
		case strings.HasSuffix(name, ".gotmpl"):
			// a Go program used twice: as XGo source (names X_...) through the compiler,
			// and as plain Go (names R_...) as the reference
			b, err := os.ReadFile(filepath.Join(src, name))
			if err != nil {
				return n, err
			}
			base := strings.TrimSuffix(name, ".gotmpl")
			xsrc := filepath.Join(dir, "tmpl_"+base+".xgo")
			os.WriteFile(xsrc, []byte(strings.ReplaceAll(string(b), "P_", "X_")), 0644)
			out := filepath.Join(dir, "xgo_"+base+".go")
			c := exec.Command(helper, "file", xsrc, out)
			c.Env = goEnv()
			c.Dir = hdir
			if o, err := c.CombinedOutput(); err != nil {
				return n, tvErr(name, err, o)
			}
			os.Remove(xsrc)
			os.WriteFile(filepath.Join(dir, "ref_"+base+".go"), []byte(strings.ReplaceAll(string(b), "P_", "R_")), 0644)
			n++
		case strings.HasSuffix(name, ".gostyle") && strings.HasPrefix(name, "kf_"):
			// template of an open known finding: compiled in isolation, not part of the package; the
			// driver reports KNOWN-FINDING while the compiler (or converter) still rejects it
			b, err := os.ReadFile(filepath.Join(src, name))
			if err != nil {
				return n, err
			}
			gsrc := filepath.Join(dir, "kf_tmp.go")
			os.WriteFile(gsrc, []byte(strings.ReplaceAll(string(b), "P_", "X_")), 0644)
			out := filepath.Join(dir, "kf_tmp_out.go")
			c := exec.Command(helper, "gopstyle", gsrc, out)
			c.Env = goEnv()
			c.Dir = hdir
			o, err := c.CombinedOutput()
			res := tvKFResult{Template: name, Failed: err != nil, Output: strings.TrimSpace(string(o))}
			if err == nil {
				// the conversion compiles: the emitted Go must type-check, too
				edir := dir + "_kf"
				os.RemoveAll(edir)
				os.MkdirAll(edir, 0755)
				eb, _ := os.ReadFile(out)
				os.WriteFile(filepath.Join(edir, "x.go"), eb, 0644)
				os.WriteFile(filepath.Join(edir, "go.mod"), []byte("module vxtvkf\n\ngo 1.18\n\nrequire github.com/goplus/xgo v0.0.0\n\nreplace github.com/goplus/xgo => "+repoRoot+"\n"), 0644)
				os.WriteFile(filepath.Join(edir, "go.sum"), sum, 0644)
				if msg := typeCheckDir(edir); msg != "" {
					res.Failed, res.Output = true, msg
				}
				os.RemoveAll(edir)
			}
			tvKF[id] = append(tvKF[id], res)
			os.Remove(gsrc)
			os.Remove(out)
			os.Remove(out + ".xgo.txt")
		case strings.HasSuffix(name, ".gostyle"):
			// a Go program converted to XGo style by the real x/format.GopstyleSource (names X_...), compiled
			// by the real compiler; the same text as plain Go (names R_...) is the reference
			b, err := os.ReadFile(filepath.Join(src, name))
			if err != nil {
				return n, err
			}
			base := strings.TrimSuffix(name, ".gostyle")
			gsrc := filepath.Join(dir, "tmpl_"+base+".go")
			os.WriteFile(gsrc, []byte(strings.ReplaceAll(string(b), "P_", "X_")), 0644)
			out := filepath.Join(dir, "xgo_"+base+".go")
			c := exec.Command(helper, "gopstyle", gsrc, out)
			c.Env = goEnv()
			c.Dir = hdir
			if o, err := c.CombinedOutput(); err != nil {
				styled, _ := os.ReadFile(out + ".xgo.txt")
				return n, tvErr(name, err, append(o, append([]byte("\n--- converted source ---\n"), styled...)...))
			}
			os.Remove(gsrc)
			if !strings.Contains(string(b), "func main()") {
				// the compiler adds an empty entry function to a main package without one: drop it, the
				// generated package holds several templates
				if eb, err := os.ReadFile(out); err == nil {
					os.WriteFile(out, []byte(strings.Replace(string(eb), "func main() {\n}\n", "", 1)), 0644)
				}
			}
			if styled, err := os.ReadFile(out + ".xgo.txt"); err == nil {
				os.WriteFile(filepath.Join(dir, "styled_"+base+".xgo.txt"), styled, 0644)
				os.Remove(out + ".xgo.txt")
			}
			ref := strings.ReplaceAll(string(b), "P_", "R_")
			ref = strings.Replace(ref, "func main()", "func R_main()", 1)
			os.WriteFile(filepath.Join(dir, "ref_"+base+".go"), []byte(ref), 0644)
			n++
		case strings.HasSuffix(name, ".go"):
			b, err := os.ReadFile(filepath.Join(src, name))
			if err != nil {
				return n, err
			}
			os.WriteFile(filepath.Join(dir, name), b, 0644)
		}
	}
	// emitted files: drop //line directives (positions are not part of these checks) and a
	// generated main function would clash with nothing (the package is only tested, never run)
	outs, _ := filepath.Glob(filepath.Join(dir, "xgo_*.go"))
	for _, f := range outs {
		b, _ := os.ReadFile(f)
		var keep []string
		for _, line := range strings.Split(string(b), "\n") {
			if strings.HasPrefix(line, "//line ") {
				continue
			}
			keep = append(keep, line)
		}
		os.WriteFile(f, []byte(strings.Join(keep, "\n")), 0644)
	}
	rt, err := os.ReadFile(filepath.Join(verifRoot, "harness", "rt", "vx_rt.go.txt"))
	if err != nil {
		return n, err
	}
	os.WriteFile(filepath.Join(dir, "zz_vx_rt.go"), []byte(strings.Replace(string(rt), "package PKG", "package main", 1)), 0644)
	gomod, err := os.ReadFile(filepath.Join(repoRoot, "go.mod"))
	if err != nil {
		return n, err
	}
	// same requirements as the repo, plus the repo itself
	mod := "module vxtv\n\ngo 1.18\n\nrequire github.com/goplus/xgo v0.0.0\n\nreplace github.com/goplus/xgo => " + repoRoot + "\n"
	_ = gomod
	os.WriteFile(filepath.Join(dir, "go.mod"), []byte(mod), 0644)
	os.WriteFile(filepath.Join(dir, "go.sum"), sum, 0644)
	tidy := exec.Command("go", "mod", "tidy")
	tidy.Dir = dir
	tidy.Env = goEnv()
	if o, err := tidy.CombinedOutput(); err != nil {
		return n, fmt.Errorf("go mod tidy in %s: %v\n%s", dir, err, o)
	}
	// the emitted Go alone (without reference and harness) must type-check
	edir := dir + "_emit"
	os.RemoveAll(edir)
	os.MkdirAll(edir, 0755)
	defer os.RemoveAll(edir)
	for _, f := range outs {
		b, _ := os.ReadFile(f)
		os.WriteFile(filepath.Join(edir, filepath.Base(f)), b, 0644)
	}
	for _, f := range []string{"go.mod", "go.sum"} {
		b, _ := os.ReadFile(filepath.Join(dir, f))
		os.WriteFile(filepath.Join(edir, f), b, 0644)
	}
	if msg := typeCheckDir(edir); msg != "" {
		return n, &tvCompileError{Template: "(all templates of " + lid + ")", Stage: "emitted Go type-check", Output: msg}
	}
	return n, nil
}

// tvErr classifies a helper failure: exit status 1 with a "compile error:" line is the compiler's verdict.
func tvErr(name string, err error, out []byte) error {
	if strings.Contains(string(out), "compile error:") {
		return &tvCompileError{Template: name, Stage: "xgo compile", Output: string(out)}
	}
	return fmt.Errorf("compiling template %s: %v\n%s", name, err, out)
}

// typeCheckDir type-checks the package in dir with go/types (through go/packages); "" if it is well-typed.
func typeCheckDir(dir string) string {
	cfg := &packages.Config{Mode: packages.NeedName | packages.NeedFiles | packages.NeedCompiledGoFiles | packages.NeedImports | packages.NeedDeps | packages.NeedTypes | packages.NeedSyntax | packages.NeedTypesInfo, Dir: dir, Env: goEnv()}
	pkgs, err := packages.Load(cfg, ".")
	if err != nil {
		return "" // infrastructure problem: the full load that follows reports it
	}
	var errs []string
	for _, p := range pkgs {
		for _, e := range p.Errors {
			if e.Kind == packages.TypeError || e.Kind == packages.ParseError {
				errs = append(errs, e.Error())
			}
		}
	}
	if len(errs) > 8 {
		errs = errs[:8]
	}
	return strings.Join(errs, "\n")
}

// tvCountPrograms counts the functions the compiler emitted for the templates of id (measured on this
// run's output, generated helpers like main excluded): the "programs" of a translation-validation run.
func tvCountPrograms(id string) int {
	files, _ := filepath.Glob(filepath.Join(tvDir(id), "xgo_*.go"))
	n := 0
	for _, f := range files {
		b, err := os.ReadFile(f)
		if err != nil {
			continue
		}
		for _, line := range strings.Split(string(b), "\n") {
			if strings.HasPrefix(line, "func ") && !strings.HasPrefix(line, "func main()") && !strings.HasPrefix(line, "func init()") {
				n++
			}
		}
	}
	return n
}
