package main

import "time"

// Registry of checks: one entry per claimed property.

func init() {
	register(&checkSpec{
		ID: "C35",
		Rule: "one path = one equivalence class of argument lists (all byte values satisfying the path condition); inputs: up to K arguments of 0..L symbolic bytes each",
		Assumptions: []string{
			"bound: at most K arguments of at most L bytes each (K, L in evidence.harnesses[].params); longer lists/arguments are outside the claim",
			"reference classification of 'file argument' is written in the harness from the documentation of filepath.Ext (final dot in the final slash-separated element, at least one byte after it)",
			"solver: z3 4.8.12 decides branch feasibility; engine semantics cross-validated natively on sampled path models",
		},
		Harnesses: []harnessSpec{{
			Name: "VxC35", Pkg: "github.com/goplus/xgo/x/xgoprojs", Files: []string{"c35/c35.go"},
			Quick: map[string]int{"K": 3, "L": 3}, Thorough: map[string]int{"K": 3, "L": 4},
		}},
	})

	// ---------------------------------------------------------------- C15
	c15Variants := func(n int) []map[string]int {
		var v []map[string]int
		for p := 0; p < n; p++ {
			v = append(v, map[string]int{"P": p})
		}
		return v
	}
	register(&checkSpec{
		ID:   "C15",
		Rule: "one path = one class of inputs (all byte strings satisfying the path condition) through the real Scanner.Scan; Stream: every source of <= N bytes scanned to EOF; Step: T consecutive Scan calls over (concrete context P) + (window of <= N symbolic bytes) from an arbitrary scanner state (insertSemi, nParen, line-start symbolic)",
		Assumptions: []string{
			"bound: Stream covers every input of at most N bytes; Step covers tokens reachable within the window after each of the listed concrete contexts; longer inputs are outside the claim",
			"ASCII=1: window bytes < 0x80 (non-ASCII bytes only through the concrete contexts); ASCII=0 runs in the thorough tier",
			"token design conventions adopted by the oracle: the literal of CSTRING/PYSTRING is the quoted part after the c / py prefix; an inserted semicolon has zero width or covers exactly the newline it replaces; a number's UNIT is a separate token directly after the number",
			"progress measure: 4*(len-offset) + 2*[unit pending] + [insertSemi] strictly decreases on every non-EOF Scan (gives: at most one token per byte plus inserted semicolons)",
			"stubs: fmt.Sprintf (error message text only), sync.Mutex (no-op, single goroutine)",
		},
		Harnesses: []harnessSpec{
			{Name: "VxC15Stream", Pkg: "github.com/goplus/xgo/scanner", Files: []string{"c15/c15.go"},
				Quick: map[string]int{"N": 3, "ASCII": 1, "P": 0}, Thorough: map[string]int{"N": 3, "ASCII": 1, "P": 0}, // non-ASCII at N=3 does not finish in 15 min
				BudgetViolation: true, MaxSteps: 400_000},
			{Name: "VxC15Step", Pkg: "github.com/goplus/xgo/scanner", Files: []string{"c15/c15.go"},
				Quick: map[string]int{"N": 2, "ASCII": 1, "T": 3}, Thorough: map[string]int{"N": 3, "ASCII": 1, "T": 3},
				Variants: c15Variants(49), ThoroughCore: 4, BudgetViolation: true, MaxSteps: 400_000},
		},
	})

	// ---------------------------------------------------------------- C16
	register(&checkSpec{
		ID:   "C16",
		Rule: "one path = one class of inputs through BOTH real scanners (XGo scanner.Scan and GOROOT go/scanner.Scan, go1.23.5) on the same bytes: concrete context P + window of <= N symbolic bytes, both comment modes; tokens compared until EOF",
		Assumptions: []string{
			"Go lexemes only: window bytes exclude # $ ? @; an input whose XGo token stream contains =>, ->, <>, UNIT, RAT, CSTRING, PYSTRING, ?, $ is outside the property and dropped",
			"reference: go/scanner of the installed toolchain (go1.23.5), executed symbolically from GOROOT source",
			"open known findings are assumed away by class (known_findings.json: tilde, bang-newline, ellipsis-newline, autosemi-before-comment); comparison of a stream stops at the first token where such a class applies",
			"ASCII=1: window bytes < 0x80",
		},
		Harnesses: []harnessSpec{
			{Name: "VxC16", Pkg: "github.com/goplus/xgo/scanner", Files: []string{"c16/c16.go"},
				Quick: map[string]int{"N": 2, "ASCII": 1, "KF_TILDE": 0, "KF_BANG": 0, "KF_ELLIPSIS": 0, "KF_AUTOSEMI_COMMENT": 0},
				Thorough: map[string]int{"N": 3, "ASCII": 1, "KF_TILDE": 0, "KF_BANG": 0, "KF_ELLIPSIS": 0, "KF_AUTOSEMI_COMMENT": 0},
				Variants: c15Variants(50), ThoroughCore: 10, MaxSteps: 600_000},
		},
	})

	// ---------------------------------------------------------------- C32
	register(&checkSpec{
		ID:   "C32",
		Rule: "one path = one class of inputs through BOTH real scanners (tpl/scanner.Scan and scanner.Scan) on the same bytes: concrete context P + window of <= N symbolic bytes, both comment modes; offsets, literals, inserted semicolons and EOF compared until EOF",
		Assumptions: []string{
			"shared lexemes only: window bytes exclude ~ and @ (TPL-only tokens); an input whose XGo stream contains a keyword, c\"..\" or py\"..\", or whose TPL stream contains ** is outside the property and dropped",
			"token kinds are not compared (different token sets); comment literals are compared after removing carriage returns (the two stripCR differ by design)",
			"ASCII=1: window bytes < 0x80",
		},
		Harnesses: []harnessSpec{
			{Name: "VxC32", Pkg: "github.com/goplus/xgo/tpl/scanner", Files: []string{"c32/c32.go"},
				Quick: map[string]int{"N": 2, "ASCII": 1}, Thorough: map[string]int{"N": 3, "ASCII": 1},
				Variants: c15Variants(41), ThoroughCore: 10, MaxSteps: 600_000},
		},
	})

	// ---------------------------------------------------------------- C33
	register(&checkSpec{
		ID:   "C33",
		Rule: "the token value is one symbolic integer over the whole int/uint range; the engine forks over the token tables as they exist in the tree (String/Len/ForEach/IsOperator/IsKeyword/Precedence executed from go/ssa); each spelled token is pushed through the real scanner",
		Assumptions: []string{
			"complete for the token tables of the working tree (finite); the scanners run on concrete spellings here (their behaviour on arbitrary bytes is C15/C16/C32)",
			"XGo: 'operator and keyword tokens' = IsOperator() || IsKeyword(); TPL: single-character tokens above ' ' with a one-byte spelling plus the ForEach range",
			"after the spelled token one inserted semicolon is allowed before EOF",
		},
		Harnesses: []harnessSpec{
			{Name: "VxC33XGo", Pkg: "github.com/goplus/xgo/scanner", Files: []string{"c33/c33_xgo.go"}, Quick: map[string]int{"KF_TILDE": 0}},
			{Name: "VxC33TPL", Pkg: "github.com/goplus/xgo/tpl/scanner", Files: []string{"c33/c33_tpl.go"}, Quick: map[string]int{}},
		},
	})

	// ---------------------------------------------------------------- C27
	register(&checkSpec{
		ID:   "C27",
		Rule: "grammar text = concrete frame P (20 frames: rule bodies, quoted/char/raw literals, escapes, parentheses, operators, lambda) around a window of <= N symbolic bytes; the real tpl.New (tpl/parser + tpl/scanner + tpl/cl + strconv.Unquote*) runs on it; any escaping panic is the violation",
		Assumptions: []string{
			"bound: window of <= N bytes (ASCII) inside each frame; longer malformed regions are outside the claim",
			"stubs: fmt.Sprintf/Errorf (message text), os.Stderr writes",
		},
		Harnesses: []harnessSpec{
			{Name: "VxC27", Pkg: "github.com/goplus/xgo/tpl", Files: []string{"c27/c27.go"},
				Quick: map[string]int{"N": 2, "ASCII": 1}, Thorough: map[string]int{"N": 3, "ASCII": 1},
				Variants: c15Variants(20), MaxSteps: 2_000_000},
		},
	})
	// ---------------------------------------------------------------- C28 / C29
	tplFiles := []string{"c28/tplgen.go", "c28/c28.go", "c28/c29.go"}
	register(&checkSpec{
		ID:   "C28",
		Rule: "grammars are generated from symbolic selectors (the engine forks over them; alphabet IDENT INT \"+\" \"\" \"x\" rule-reference self-reference, combinators sequence choice * + ? % ++ up to depth D), compiled by the real tpl.New from text, and matched by the real Compiler.Match on up to NTOK symbolic tokens (kind, literal, adjacency symbolic) delivered through the Config.Scanner interface; a path that exceeds the instruction/call-depth budget is non-termination",
		Assumptions: []string{
			"bound: expression depth D over ATOMS atoms (LEAFBIN=1: right operand of a binary combinator is an atom), NB variants of the second rule, NTOK tokens; instruction budget 300000 and call depth 4000 per path, far above any terminating match at these sizes (largest terminating path is in evidence)",
			"token stream stub: tokens come from a harness type implementing tpl.Scanner (the scanners are C15/C32's subject)",
		},
		Harnesses: []harnessSpec{
			{Name: "VxC28", Pkg: "github.com/goplus/xgo/tpl", Files: tplFiles,
				Quick: map[string]int{"FAM": 0, "D": 1, "ATOMS": 7, "LEAFBIN": 1, "NB": 7, "NTOK": 2}, Thorough: map[string]int{"FAM": 0, "D": 1, "ATOMS": 7, "LEAFBIN": 1, "NB": 7, "NTOK": 2},
				BudgetViolation: true, MaxSteps: 300_000, ReplayTimeout: 8 * time.Second},
			{Name: "VxC28", Pkg: "github.com/goplus/xgo/tpl", Files: tplFiles,
				Quick: map[string]int{"FAM": 0, "D": 2, "ATOMS": 7, "LEAFBIN": 1, "NB": 1, "NTOK": 1}, Thorough: map[string]int{"FAM": 0, "D": 2, "ATOMS": 7, "LEAFBIN": 1, "NB": 1, "NTOK": 1},
				BudgetViolation: true, MaxSteps: 300_000, ReplayTimeout: 8 * time.Second},
		},
	})
	register(&checkSpec{
		ID:   "C29",
		Rule: "same grammar generator and symbolic token inputs as C28; the real matcher's outcome (success/failure, tokens consumed, result tree with tokens compared by identity) is compared with a reference matcher written in the harness from tpl/README.md (ordered choice, greedy repetition without backtracking, n-element sequence lists, nil for absent options, [r,[[sep,r]...]] for R1 % R2, pairs and touching tokens for R1 ++ R2)",
		Assumptions: []string{
			"bound: as C28 (D, ATOMS, NB, NTOK in evidence), plus the family FAM=1: repetition (* + ?) of a two-token operand (sequence or ++), alone, followed or preceded by an atom, on up to NTOK tokens, and the family FAM=2: choice between two two-token sequences (optionally a third, one-token alternative) over {IDENT, INT, "+", keyword literal}; grammars for which the README gives no meaning (repetition of an operand that can match empty, unbounded recursion) are skipped here and covered by C28",
			"the reference matcher (harness/c28/tplgen.go) is the oracle; before the choice repair it agreed with the implementation everywhere except the recorded class",
		},
		Harnesses: []harnessSpec{
			{Name: "VxC29", Pkg: "github.com/goplus/xgo/tpl", Files: tplFiles,
				Quick: map[string]int{"FAM": 0, "D": 1, "ATOMS": 6, "LEAFBIN": 1, "NB": 2, "NTOK": 2}, Thorough: map[string]int{"FAM": 0, "D": 1, "ATOMS": 6, "LEAFBIN": 1, "NB": 2, "NTOK": 2},
				MaxSteps: 300_000},
			{Name: "VxC29", Pkg: "github.com/goplus/xgo/tpl", Files: tplFiles,
				Quick: map[string]int{"FAM": 2, "D": 3, "ATOMS": 5, "LEAFBIN": 1, "NB": 1, "NTOK": 2}, Thorough: map[string]int{"FAM": 2, "D": 3, "ATOMS": 5, "LEAFBIN": 1, "NB": 1, "NTOK": 2},
				MaxSteps: 300_000},
			{Name: "VxC29", Pkg: "github.com/goplus/xgo/tpl", Files: tplFiles,
				Quick: map[string]int{"FAM": 1, "D": 3, "ATOMS": 5, "LEAFBIN": 1, "NB": 1, "NTOK": 3}, Thorough: map[string]int{"FAM": 1, "D": 3, "ATOMS": 5, "LEAFBIN": 1, "NB": 1, "NTOK": 3},
				MaxSteps: 300_000},
			{Name: "VxC29", Pkg: "github.com/goplus/xgo/tpl", Files: tplFiles,
				Quick: map[string]int{"FAM": 0, "D": 2, "ATOMS": 4, "LEAFBIN": 1, "NB": 1, "NTOK": 1}, Thorough: map[string]int{"FAM": 0, "D": 2, "ATOMS": 4, "LEAFBIN": 1, "NB": 1, "NTOK": 1},
				MaxSteps: 300_000},
		},
	})

	// ---------------------------------------------------------------- C30
	register(&checkSpec{
		ID:   "C30",
		Rule: "match results of R % sep with up to M separators, symbolic operands and separator tokens; the combining callback is an uninterpreted function, so the assertion 'result == left-nested application term' must hold for every interpretation; calculator: README grammar compiled by the real tpl.New and evaluated on up to NTOK symbolic tokens against a precedence-climbing evaluator",
		Assumptions: []string{
			"bound: lists of at most M separators (nested lists to depth D, one nested operand per level in any position, at most 2 separators in inner lists); calculator inputs of at most NTOK tokens over {digit + - * / ( )}, integer arithmetic instead of floats, division by zero yields 0 on both sides",
			"uninterpreted functions f (combiner) and g (ListOp mapper): z3's UF theory; natively replayed with a fixed hash function",
			"token stream stub for the calculator (tokens delivered through Config.Scanner)",
		},
		Harnesses: []harnessSpec{
			{Name: "VxC30Fold", Pkg: "github.com/goplus/xgo/tpl", Files: []string{"c30/c30.go"}, Quick: map[string]int{"M": 4}, Thorough: map[string]int{"M": 7}},
			{Name: "VxC30Nested", Pkg: "github.com/goplus/xgo/tpl", Files: []string{"c30/c30.go"}, Quick: map[string]int{"M": 2, "D": 3}, Thorough: map[string]int{"M": 3, "D": 4}},
			{Name: "VxC30NestedExpr", Pkg: "github.com/goplus/xgo/tpl", Files: []string{"c30/c30.go"}, Quick: map[string]int{"M": 2, "D": 3}, Thorough: map[string]int{"M": 3, "D": 4}},
			{Name: "VxC30Expr", Pkg: "github.com/goplus/xgo/tpl", Files: []string{"c30/c30.go"}, Quick: map[string]int{"M": 4}, Thorough: map[string]int{"M": 7}},
			{Name: "VxC30Calc", Pkg: "github.com/goplus/xgo/tpl", Files: []string{"c30/c30.go"}, Quick: map[string]int{"NTOK": 4}, Thorough: map[string]int{"NTOK": 6}, MaxSteps: 2_000_000},
		},
	})
	// ---------------------------------------------------------------- C31
	register(&checkSpec{
		ID:   "C31",
		Rule: "rule bodies of up to NTOK tokens whose kinds are symbolic selectors over {IDENT STRING * + ? % ++ | ( )} (all sequences, the engine forks over them), rendered to text and parsed by the real tpl/parser + tpl/scanner; compared with a reference precedence parser (unary > ++ > % > sequence > |) written in the harness",
		Assumptions: []string{
			"bound: every token sequence of length <= NTOK over the 10-token expression alphabet; longer expressions are outside the claim",
			"tokens are rendered with single blanks between them (lexing is C15/C32's subject)",
		},
		Harnesses: []harnessSpec{
			{Name: "VxC31", Pkg: "github.com/goplus/xgo/tpl/parser", Files: []string{"c31/c31.go"}, Quick: map[string]int{"NTOK": 4}, Thorough: map[string]int{"NTOK": 5}},
		},
	})

	// ---------------------------------------------------------------- C24
	register(&checkSpec{
		ID:   "C24",
		Rule: "scripts assembled from up to K statements chosen by symbolic selectors out of 16 (EDGE=1: 18, plus an optional leading import declaration and an optional missing final newline; the two extra templates are a statement with a trailing comment and a called function literal with a result type) statement templates (function/method declarations with comments and result lists, const/type/var incl. parenthesized blocks, assignments, calls, function-literal calls and assignments, if-blocks, commented statements) joined by symbolic separators (newline, blank line, semicolon); chunk boundaries and classes are known by construction and give the expected output",
		Assumptions: []string{
			"bound: at most K top-level statements from the 16 templates and 3 separators; other statement shapes are outside the claim",
			"FMT=1: the SourceEx clause runs the real format.Source (parser, printer, text/tabwriter) in the engine on the original, on the rearrangement and through SourceEx",
		},
		Harnesses: []harnessSpec{
			{Name: "VxC24", Pkg: "github.com/goplus/xgo/format/formatutil", Files: []string{"c24/c24.go"},
				Quick: map[string]int{"K": 3, "NT": 16, "FMT": 0, "LEAD": 0, "EDGE": 0}, Thorough: map[string]int{"K": 3, "NT": 16, "FMT": 0, "LEAD": 1, "EDGE": 0}, MaxSteps: 20_000_000},
			{Name: "VxC24", Pkg: "github.com/goplus/xgo/format/formatutil", Files: []string{"c24/c24.go"},
				Quick: map[string]int{"K": 2, "NT": 16, "FMT": 1, "LEAD": 1, "EDGE": 0}, Thorough: map[string]int{"K": 2, "NT": 16, "FMT": 1, "LEAD": 1, "EDGE": 0}, MaxSteps: 20_000_000},
			{Name: "VxC24", Pkg: "github.com/goplus/xgo/format/formatutil", Files: []string{"c24/c24.go"},
				Quick: map[string]int{"K": 2, "NT": 18, "FMT": 1, "LEAD": 0, "EDGE": 1}, Thorough: map[string]int{"K": 2, "NT": 18, "FMT": 1, "LEAD": 1, "EDGE": 1}, MaxSteps: 20_000_000},
		},
	})

	// ---------------------------------------------------------------- C34
	register(&checkSpec{
		ID:   "C34",
		Rule: "directory listings of up to K entries; each name = concrete prefix (one of \"\", _, gop_autogen, main, a, gop_autogen_x; symbolic selector) + up to L symbolic bytes, IsDir symbolic; the real ParseFSDir/ParseFSFile/defaultClassKind/reqPkg/go/parser run over a harness FileSystem; compared with the statement written as a reference function of (name, isDir, class-kind, ParseGoAsGoPlus)",
		Assumptions: []string{
			"bound: K entries, names = prefix + <= L ASCII bytes without '/' and NUL, names distinct and non-empty",
			"class-kind configurations: nil (defaultClassKind executed) and one custom extension rule (*.tx class, main.tx project); Filter nil",
			"file contents are the concrete source 'package foo' (parsing itself is C13's subject)",
		},
		Harnesses: []harnessSpec{
			{Name: "VxC34", Pkg: "github.com/goplus/xgo/parser", Files: []string{"c34/c34.go"},
				Quick: map[string]int{"K": 2, "L": 4}, Thorough: map[string]int{"K": 2, "L": 5},
				Variants: []map[string]int{{"CK": 0}, {"CK": 1}}, MaxSteps: 3_000_000},
		},
	})

	// ---------------------------------------------------------------- C36
	register(&checkSpec{
		ID:   "C36",
		Rule: "two arbitrary directory states A and B (the hash is a function of the state, so any history of creations/edits/renames/deletions reduces to a pair of states): up to K entries each, names = concrete prefix (\"\", _, a, m.) + up to L symbolic bytes + concrete ending (\"\", .go, .gox, _test.gox, .spx, .txt), IsDir, size and mtime symbolic; the real dirHash/canCl/path.Ext/modfile.ClassExt and the fmt.Fprintf record format run over a listing model; assert transcripts equal <=> relevant projections equal (both directions)",
		Assumptions: []string{
			"sha256 replaced by a transcript recorder: hash equality is identified with equality of the hashed bytes (no SHA-256 collisions)",
			"os.ReadDir replaced by a listing model returning distinct names in sorted order; Info() never fails; Module.IsClass replaced by the default module's class extensions (.spx .gsh _test.gox) - both stubs are cross-validated natively each run (real directories, real os.ReadDir/sha256/default module) on sampled path models",
			"bound: K entries per state, names of prefix + <= L printable ASCII bytes without '/', sizes in [0,R], mtimes 1s + [1,R] ns (keeps UnixNano linear: no symbolic multiplication by 1e9); names containing TAB/LF (which could alias two records of the file\\t%s\\t%x\\t%x\\n format) are outside the bound",
		},
		Harnesses: []harnessSpec{
			{Name: "VxC36", Pkg: "github.com/goplus/xgo/tool", Files: []string{"c36/c36.go"},
				Quick: map[string]int{"K": 1, "L": 2, "R": 300}, Thorough: map[string]int{"K": 1, "L": 2, "R": 300}, MaxSteps: 3_000_000,
				Overrides: map[string]string{"os.ReadDir": "vxReadDir", "crypto/sha256.New": "vxNewHash", "(*github.com/goplus/mod/xgomod.Module).IsClass": "vxIsClass"}},
		},
	})

	// ---------------------------------------------------------------- C26
	register(&checkSpec{
		ID:   "C26",
		Rule: "the real writeFileWithBackup runs over a file-system model; the crash point (world stops just before the crashAt-th mutating call), the index of a failing call and the original permission bits are symbolic; states = (crash point | failing call | success) x mode; the assertion is about the modelled directory at that instant. Counter-examples are replayed against the real file system in a child process under strace fault/kill injection",
		Assumptions: []string{
			"file-system model: CreateTemp creates mode 0600 (documented), Write may fail leaving partial content, Remove/Rename/Chmod are atomic and may fail without effect, Rename replaces the destination atomically (POSIX rename)",
			"complete for the call sequence as written in the working tree (at most 8 mutating calls); only one fault per run; crash = process killed between two system calls (no torn writes inside one call, no power-loss reordering)",
		},
		Harnesses: []harnessSpec{
			{Name: "VxC26", Pkg: "github.com/goplus/xgo/cmd/internal/gopfmt", Files: []string{"c26/c26.go"}, Quick: map[string]int{}, ReplayTimeout: 90 * time.Second,
				Overrides: map[string]string{"os.CreateTemp": "vxCreateTemp", "(*os.File).Name": "vxFileName", "(*os.File).Write": "vxFileWrite", "(*os.File).Close": "vxFileClose",
					"(*os.File).Chmod": "vxFileChmod", "os.Chmod": "vxChmod", "os.Remove": "vxRemove", "os.Rename": "vxRename", "os.Stat": "vxStat", "os.Lstat": "vxStat"}},
			// child process entry point of the native replay (a no-op symbolically)
			{Name: "VxC26Child", Pkg: "github.com/goplus/xgo/cmd/internal/gopfmt", Files: []string{"c26/c26.go"}, Quick: map[string]int{}, NoCrossVal: true},
		},
	})

	// ---------------------------------------------------------------- C38
	jsonOv := map[string]string{"encoding/json.Marshal": "vxMarshal", "encoding/json.Unmarshal": "vxUnmarshal"}
	register(&checkSpec{
		ID:   "C38",
		Rule: "Stream/MODE=0: up to M messages (one representative per kind) written by headerWriter.Write and read back by headerReader.Read through a reader that cuts the byte stream at two symbolic positions, payload padding bytes symbolic; Stream/MODE=1: one message over the full variety (kind, int64/string ID incl. 2^53 boundary values, params, error codes) through the real EncodeMessage/DecodeMessage; Malformed: concrete frame P (9 frames) around a window of <= N symbolic bytes into headerReader.Read",
		Assumptions: []string{
			"encoding/json is replaced in the symbolic run by its contract on wireCombined (omitempty, numbers decode into `any` as float64); natively (replay, cross-validation) the real encoding/json runs",
			"the reader under test receives the stream in at most three pieces (two symbolic cut points); payload bytes beyond the 2-byte tag are symbolic",
			"bound: M messages, PAD padding bytes, N window bytes; Content-Length values of at most N+1 digits",
			"open known finding assumed away: int64 IDs that do not survive the float64 coercion (KF_FLOATID)",
		},
		Harnesses: []harnessSpec{
			{Name: "VxC38Stream", Pkg: "github.com/goplus/xgo/x/jsonrpc2", Files: []string{"c38/c38.go"}, Overrides: jsonOv,
				Quick: map[string]int{"M": 2, "PAD": 2, "MODE": 0, "KF_FLOATID": 0}, Thorough: map[string]int{"M": 2, "PAD": 3, "MODE": 0, "KF_FLOATID": 0}, MaxSteps: 3_000_000},
			{Name: "VxC38Stream", Pkg: "github.com/goplus/xgo/x/jsonrpc2", Files: []string{"c38/c38.go"}, Overrides: jsonOv,
				Quick: map[string]int{"M": 1, "PAD": 1, "MODE": 1, "KF_FLOATID": 0}, MaxSteps: 3_000_000},
			{Name: "VxC38Malformed", Pkg: "github.com/goplus/xgo/x/jsonrpc2", Files: []string{"c38/c38.go"}, Overrides: jsonOv,
				Quick: map[string]int{"N": 2}, Thorough: map[string]int{"N": 3}, Variants: c15Variants(9), ThoroughCore: 3, MaxSteps: 3_000_000},
		},
	})

	// ---------------------------------------------------------------- C23
	register(&checkSpec{
		ID:   "C23",
		Rule: "import blocks of up to K specs: name (none a _ .), path \"pa\"/\"pb\"/\"pc\" (equal / ordered / duplicate paths all occur), trailing comment and group break chosen by symbolic selectors (the engine forks over them), optionally (LEAD) next to a single-line import declaration in front of or behind the block, or in an XGo script without a package clause; the real format.Source (parser, ast.SortImports, sortSpecs, collapse, printer, tabwriter) runs on the text, the output is re-parsed and the (name,path) multisets and per-group order are compared",
		Assumptions: []string{
			"bound: one parenthesized import declaration of at most K specs over 4 names x 3 paths x comment x group break; comments only as trailing line comments",
			"sort.Slice is modelled by an insertion sort that calls the real less closure (reflectlite swapper is not executable)",
		},
		Harnesses: []harnessSpec{
			{Name: "VxC23", Pkg: "github.com/goplus/xgo/format", Files: []string{"c23/c23.go"},
				Quick: map[string]int{"K": 3, "LEAD": 0}, Thorough: map[string]int{"K": 3, "LEAD": 0}, MaxSteps: 50_000_000}, // K=4 does not finish in 30 min on 16 cores
			{Name: "VxC23", Pkg: "github.com/goplus/xgo/format", Files: []string{"c23/c23.go"},
				Quick: map[string]int{"K": 2, "LEAD": 3}, Thorough: map[string]int{"K": 3, "LEAD": 3}, MaxSteps: 50_000_000},
		},
	})

	// ---------------------------------------------------------------- C13
	register(&checkSpec{
		ID:   "C13",
		Rule: "source = concrete context P (70 contexts: file, expression and class-file entry points; declarations, statements, literals, comprehensions, for-phrases, lambdas, string interpolation, tpl literals, index/slice forms) around a window of <= N symbolic ASCII bytes, ParseComments/AllErrors symbolic; the real parser (all of parser.go/parser_gop.go, scanner, go/token, go/scanner.ErrorList) runs; obligations: no escaping panic, instruction budget, nil error => no Bad node, error list sorted and inside the file",
		Assumptions: []string{
			"bound: windows of <= N ASCII bytes inside the listed contexts; anything needing more adjacent unconstrained bytes is outside the claim",
			"instruction budget 3000000 per path (about 30x the cost of the longest terminating path, see evidence): exceeding it is reported as non-termination",
			"the Bad-node walk uses ast.Inspect; node kinds ast.Walk does not handle are C18's subject and skipped here",
		},
		Harnesses: []harnessSpec{
			{Name: "VxC13", Pkg: "github.com/goplus/xgo/parser", Files: []string{"c13/c13.go"},
				Quick: map[string]int{"N": 2}, Thorough: map[string]int{"N": 3}, Variants: c15Variants(70), ThoroughCore: 6, MaxSteps: 3_000_000, BudgetViolation: true, ReplayTimeout: 20 * time.Second},
		},
	})

	// ---------------------------------------------------------------- C17 / C18
	spanFiles := []string{"c13/c13.go", "c17/spans.go", "gen:astkinds:ast", "gen:corpus:parser/_testdata/*/*.xgo;parser/_testdata/*/*.gox;parser/_testdata/*/*.gop:80:3000"}
	register(&checkSpec{
		ID:   "C17",
		Rule: "trees the real parser returns without errors for (a) the 70 C13 contexts around a window of <= N symbolic ASCII bytes and (b) the repository's parser test data (concrete corpus, embedded at check time); per node: valid span, Pos at the first byte and End just after the last byte of a token of the real scanner's stream, children inside the parent, siblings in source order without overlap; per expression node: re-parsing its source slice with ParseExprFrom yields the same kinds and relative spans",
		Assumptions: []string{
			"children are enumerated by vxChildren, generated at check time from the struct definitions of the current ast package (plus the Node values in `any`-typed extras), not by ast.Walk",
			"oracle conventions (go/ast heritage and synthesized nodes): comment groups are outside their owner's span; FuncDecl.Type.Pos() is the func keyword; the package name of a file without package clause, the header and braces of the shadow entry function and nodes without position (static-method receivers) are synthesized and skipped; expressions inside string / domain-text literals are not tokens of the file scan; key-value pairs, ellipses, for-phrases, lambdas, ranges, command-style calls and operator names are not expressions on their own and are not re-parsed",
			"bound: windows of <= N ASCII bytes without carriage return (CRs are stripped from raw strings and comments, so literal spans are exact only \"carriage returns aside\", as in go/ast); at most REPARSE expression nodes re-parsed per tree",
			"go/ast heritage: an implicit empty statement (label directly before a closing brace) has zero width at the next token",
		},
		Harnesses: []harnessSpec{
			{Name: "VxC17Corpus", Pkg: "github.com/goplus/xgo/parser", Files: spanFiles, Quick: map[string]int{"N": 0, "P": 0, "REPARSE": 40, "NOCR": 1}, MaxSteps: 60_000_000},
			{Name: "VxC17", Pkg: "github.com/goplus/xgo/parser", Files: spanFiles,
				Quick: map[string]int{"N": 2, "REPARSE": 6, "NOCR": 1}, Thorough: map[string]int{"N": 3, "REPARSE": 6, "NOCR": 1}, Variants: c15Variants(70), ThoroughCore: 5, MaxSteps: 6_000_000},
		},
	})
	register(&checkSpec{
		ID:   "C18",
		Rule: "same trees as C17 (70 contexts around a symbolic window, both comment modes; and the concrete corpus): ast.Walk's visit sequence is recorded and compared with the children enumerated by vxChildren (generated from the current struct definitions): every child exactly once, nothing else, parents before children, Visit(nil) after each node's children, siblings in source order; ast.Inspect visits the same number of nodes; no panic for any node kind the parser produces",
		Assumptions: []string{
			"only trees the parser produces within the bound (synthesized trees from the compiler front end are not generated)",
			"oracle conventions: the synthesized package name of a file without package clause and the synthesized header of the shadow entry function are not visited; FuncDecl.Type is visited after Recv and Name although its Pos() is the func keyword; comment groups are exempt from the order check",
		},
		Harnesses: []harnessSpec{
			{Name: "VxC18Corpus", Pkg: "github.com/goplus/xgo/parser", Files: spanFiles, Quick: map[string]int{"N": 0, "P": 0, "REPARSE": 0, "NOCR": 0}, MaxSteps: 60_000_000},
			{Name: "VxC18", Pkg: "github.com/goplus/xgo/parser", Files: spanFiles,
				Quick: map[string]int{"N": 2, "REPARSE": 0, "NOCR": 0}, Thorough: map[string]int{"N": 3, "REPARSE": 0, "NOCR": 0}, Variants: c15Variants(70), ThoroughCore: 5, MaxSteps: 6_000_000},
		},
	})

	// ---------------------------------------------------------------- C40 / C41
	register(&checkSpec{
		ID:   "C40",
		Rule: "P producers (FileChanged on a name whose directory is a symbolic byte: same or different directories) and C consumers (Fetch) run as interpreted goroutines over the real Changes (mutex, condition variable, map); every scheduling decision at a visible operation (Lock, Unlock with waiters, Cond.Wait/Broadcast wake-ups) and the start of the map range in Fetch are symbolic variables the explorer forks over; when nothing can run any more the final state is checked",
		Assumptions: []string{
			"bound: P producers, C consumers, at most PB pre-emptive context switches per schedule (CHESS-style bound); non-pre-emptive switches are unbounded",
			"pre-emption only at synchronisation operations (the code under test is data-race free under its mutex); sync.Mutex / sync.Cond are modelled by the engine (FIFO wake-up order for Signal)",
			"native replay of a schedule-dependent counter-example: the package under test is instrumented in the overlay (a point in front of every synchronisation operation, a resume point behind every possibly blocking one, go statements wrapped) and the native goroutines are held at these points so that the operations take effect in the order of the solver's schedule; a violation that does not show up natively is listed as not reproduced, not reported",
		},
		Harnesses: []harnessSpec{
			{Name: "VxC40", Pkg: "github.com/goplus/xgo/x/watcher", Files: []string{"c40/c40.go", "gen:instrument"}, Goroutine: true, ReplayTimeout: 120 * time.Second,
				Quick: map[string]int{"P": 2, "C": 2, "PB": 2}, Thorough: map[string]int{"P": 2, "C": 2, "PB": 3}, MaxSteps: 3_000_000},
			{Name: "VxC40", Pkg: "github.com/goplus/xgo/x/watcher", Files: []string{"c40/c40.go", "gen:instrument"}, Goroutine: true, ReplayTimeout: 120 * time.Second,
				Quick: map[string]int{"P": 2, "C": 1, "PB": -1}, Thorough: map[string]int{"P": 3, "C": 1, "PB": 2}, MaxSteps: 3_000_000},
			{Name: "VxC40", Pkg: "github.com/goplus/xgo/x/watcher", Files: []string{"c40/c40.go", "gen:instrument"}, Goroutine: true, ReplayTimeout: 120 * time.Second,
				Quick: map[string]int{"P": 1, "C": 2, "PB": -1}, Thorough: map[string]int{"P": 1, "C": 3, "PB": 2}, MaxSteps: 3_000_000},
		},
	})
	// ---------------------------------------------------------------- C39
	c39 := func(q, t map[string]int) harnessSpec {
		return harnessSpec{Name: "VxC39", Pkg: "github.com/goplus/xgo/x/jsonrpc2", Files: []string{"c39/c39.go", "gen:instrument"}, Goroutine: true,
			ReplayTimeout: 120 * time.Second, Quick: q, Thorough: t, MaxSteps: 3_000_000}
	}
	register(&checkSpec{
		ID:   "C39",
		Rule: "one real Connection (newConnection, Call, Await, Close, Wait, Respond, readIncoming, acceptRequest, handleAsync, processResult, write, updateInFlight; the real context.WithCancel) over a message-level wire owned by the harness (Framer handing Message values through channels); goroutines: NC clients (Call + Await), a peer whose behaviour is a symbolic choice up to PEER (0 answers, 1 answers twice, 2 sends an unknown ID first, 3 disconnects instead), INC=1 an incoming call handled synchronously, INC=2 handled through ErrAsyncResponse and a later Respond, INC=3 in addition a second incoming call reusing the ID of the first while it is in flight, CLOSE=1 a concurrent Close; every scheduling decision at a mutex / channel / select operation and every choice among ready select cases is a symbolic variable; checked: no 'retire called twice' / 'non-idle when done' / 'incoming count already zero' panic on any schedule, and at quiescence every Await has returned with an error or with the response carrying its own ID, every incoming call was answered at most once, Close returned and no handler was still running when it did",
		Assumptions: []string{
			"bound: NC clients, one incoming call, at most PB pre-emptive context switches per schedule (CHESS-style); the scenario family is stated in the rule - notifications, Cancel and a failing Writer are not exercised",
			"the wire is at message level: framing and JSON encoding are C38's subject; calls carry nil params and handlers answer with an error value, so encoding/json is never entered",
			"sync.Mutex, channels, select and atomic.Value are the engine's models; context is interpreted from its source (WithCancel, cancel propagation through the notDone wrapper)",
			"native replay follows the solver's schedule through the overlay instrumentation (see C40)",
		},
		Harnesses: []harnessSpec{
			c39(map[string]int{"NC": 1, "CLOSE": 0, "INC": 0, "PEER": 3, "PB": 2}, map[string]int{"NC": 1, "CLOSE": 0, "INC": 0, "PEER": 3, "PB": 2}),
			c39(map[string]int{"NC": 1, "CLOSE": 1, "INC": 0, "PEER": 3, "PB": 1}, map[string]int{"NC": 1, "CLOSE": 1, "INC": 0, "PEER": 3, "PB": 1}),
			c39(map[string]int{"NC": 1, "CLOSE": 0, "INC": 1, "PEER": 0, "PB": 1}, map[string]int{"NC": 1, "CLOSE": 0, "INC": 1, "PEER": 0, "PB": 1}),
			c39(map[string]int{"NC": 0, "CLOSE": 1, "INC": 1, "PEER": 0, "PB": 2}, map[string]int{"NC": 0, "CLOSE": 1, "INC": 1, "PEER": 0, "PB": 2}),
			c39(map[string]int{"NC": 0, "CLOSE": 1, "INC": 2, "PEER": 0, "PB": 1}, map[string]int{"NC": 0, "CLOSE": 1, "INC": 2, "PEER": 0, "PB": 1}),
			c39(map[string]int{"NC": 0, "CLOSE": 1, "INC": 3, "PEER": 0, "PB": 1}, map[string]int{"NC": 0, "CLOSE": 1, "INC": 3, "PEER": 0, "PB": 1}),
			c39(map[string]int{"NC": 2, "CLOSE": 0, "INC": 0, "PEER": 0, "PB": 1}, map[string]int{"NC": 2, "CLOSE": 0, "INC": 0, "PEER": 0, "PB": 1}),
		},
	})
	register(&checkSpec{
		ID:   "C41",
		Rule: "a connection from the real NewConn over harness reader/writer ends; one writer (W writes of symbolic bytes), one reader (R reads), optionally one or two concurrent closers run as interpreted goroutines next to the two feeder goroutines; every scheduling decision at a channel / select / mutex operation and every choice among ready select cases is a symbolic variable the explorer forks over; checked at quiescence: delivery in order and unmodified, EOF for I/O pending or started after Close, nothing left blocked after Close",
		Assumptions: []string{
			"bound: W writes, R reads, at most PB pre-emptive context switches per schedule (CHESS-style); unbuffered channels are modelled as rendezvous between parked offers",
			"a Write that was pending when Close came may report EOF although its data reached the underlying writer (allowed by the statement)",
			"native replay of a schedule-dependent counter-example: the package under test is instrumented in the overlay (a point in front of every synchronisation operation, a resume point behind every possibly blocking one, go statements wrapped) and the native goroutines are held at these points so that the operations take effect in the order of the solver's schedule; a violation that does not show up natively is listed as not reproduced, not reported",
		},
		Harnesses: []harnessSpec{
			{Name: "VxC41", Pkg: "github.com/goplus/xgo/x/fakenet", Files: []string{"c41/c41.go", "gen:instrument"}, Goroutine: true,
				Quick: map[string]int{"W": 1, "R": 0, "CLOSE": 1, "PB": 1}, Thorough: map[string]int{"W": 1, "R": 0, "CLOSE": 1, "PB": 1}, MaxSteps: 3_000_000},
			{Name: "VxC41", Pkg: "github.com/goplus/xgo/x/fakenet", Files: []string{"c41/c41.go", "gen:instrument"}, Goroutine: true,
				Quick: map[string]int{"W": 0, "R": 1, "CLOSE": 1, "PB": 1}, Thorough: map[string]int{"W": 0, "R": 1, "CLOSE": 1, "PB": 1}, MaxSteps: 3_000_000},
			{Name: "VxC41", Pkg: "github.com/goplus/xgo/x/fakenet", Files: []string{"c41/c41.go", "gen:instrument"}, Goroutine: true,
				Quick: map[string]int{"W": 0, "R": 0, "CLOSE": 2, "PB": 1}, Thorough: map[string]int{"W": 0, "R": 0, "CLOSE": 2, "PB": 1}, MaxSteps: 3_000_000},
			{Name: "VxC41", Pkg: "github.com/goplus/xgo/x/fakenet", Files: []string{"c41/c41.go", "gen:instrument"}, Goroutine: true,
				Quick: map[string]int{"W": 2, "R": 0, "CLOSE": 0, "PB": 2}, Thorough: map[string]int{"W": 2, "R": 0, "CLOSE": 0, "PB": 2}, MaxSteps: 3_000_000},
			{Name: "VxC41", Pkg: "github.com/goplus/xgo/x/fakenet", Files: []string{"c41/c41.go", "gen:instrument"}, Goroutine: true,
				Quick: map[string]int{"W": 1, "R": 1, "CLOSE": 0, "PB": 2}, Thorough: map[string]int{"W": 1, "R": 1, "CLOSE": 0, "PB": 2}, MaxSteps: 3_000_000},
		},
	})

	// ---------------------------------------------------------------- C04 (translation validation)
	c04Variants := func() []map[string]int {
		var v []map[string]int
		for fn := 0; fn <= 16; fn++ {
			for neg := 0; neg <= 1; neg++ {
				if (fn >= 3 && fn <= 6 || fn >= 15) && neg == 1 {
					continue // contexts without a step parameter
				}
				v = append(v, map[string]int{"FN": fn, "NEG": neg})
			}
		}
		return v
	}
	register(&checkSpec{
		ID:    "C04",
		Level: "translation_validation",
		Rule:  "programs = the 17 context templates of harness/tv/c04/range.xgo (for-in, for-range, for-range without variable, list/map comprehension, existence comprehension, with and without filter, omitted start/step, operands as parameters, expressions and literals), compiled by the compiler of the current tree; inputs = start, end in [-R,R], step in [1,S] or [-S,-1] as SMT variables; the emitted Go function is executed symbolically and compared with the documented sequence",
		Assumptions: []string{
			"translation validation of the listed templates, not of every program: a lowering bug that none of these context shapes exercises is not found",
			"bound: |start|,|end| <= R, 0 < |step| <= S (wrap-around near MaxInt is outside); instruction budget per path; //line directives removed from the emitted file",
			"the emitted code runs the real github.com/qiniu/x/xgo range iterator",
		},
		Prepare: func(tier string) error { _, err := prepareTV("C04"); return err },

		Harnesses: []harnessSpec{
			{Name: "VxC04", ExtDir: tvDir("C04"), Quick: map[string]int{"R": 4, "S": 3, "KF_NEGSTEP": 0}, Thorough: map[string]int{"R": 8, "S": 4, "KF_NEGSTEP": 0},
				Variants: c04Variants(), MaxSteps: 200_000},
		},
	})

	// ---------------------------------------------------------------- C03 (translation validation)
	register(&checkSpec{
		ID:    "C03",
		Level: "translation_validation",
		Rule:  "programs = the 16 templates of harness/tv/c03/errwrap.xgo (command style f! args and f? args; expr!, expr?, expr?:d as assignment, two- and three-value assignment, statement, argument, nested; enclosing functions with 1..3 results), compiled by the compiler of the current tree; inputs = callee values, default value and error/non-error flags as SMT variables; the emitted Go is executed symbolically (with the real github.com/qiniu/x/errors frame wrapping) and checked against the documented behaviour, including the instrumented evaluation trace",
		Assumptions: []string{
			"translation validation of the listed templates, not of every program",
			"'panics with that error (wrapped with its source frame)' is checked as errors.Is(panic value, callee error); errors.Is is the engine's model (identity, Is method, Unwrap chain)",
		},
		Prepare: func(tier string) error { _, err := prepareTV("C03"); return err },
		Extra:   nil, // programs are counted from the emitted Go (tvCountPrograms) by the driver
		Harnesses: []harnessSpec{
			{Name: "VxC03", ExtDir: tvDir("C03"), Quick: map[string]int{}, Variants: func() []map[string]int {
				var v []map[string]int
				for fn := 0; fn <= 13; fn++ {
					v = append(v, map[string]int{"FN": fn})
				}
				return v
			}(), MaxSteps: 500_000},
		},
	})

	// ---------------------------------------------------------------- C05 (translation validation)
	register(&checkSpec{
		ID:    "C05",
		Level: "translation_validation",
		Rule:  "programs = the 14 templates of harness/tv/c05/interp.xgo (blank-only text pieces between, before and after interpolations, around $$ and across lines of a raw string; text, $$, ${int}, ${string}, ${error}, ${int64}, ${arithmetic}, ${call} in several orders), compiled by the compiler of the current tree; inputs = integers in [-R,R], strings of <= L symbolic bytes, an error value, as SMT variables; the emitted Go (real strconv and qiniu/x/stringutil.Concat) is executed symbolically and compared with explicit concatenation and with the evaluation trace",
		Assumptions: []string{
			"translation validation of the listed templates, not of every literal; floats are left out (no floating point in the engine); bool and unsigned operands are rejected by the compiler and not part of the templates",
			"bound: |ints| <= R (decimal rendering forks on the digit count), strings of <= L bytes",
		},
		Prepare: func(tier string) error { _, err := prepareTV("C05"); return err },
		Extra:   nil, // programs are counted from the emitted Go (tvCountPrograms) by the driver
		Harnesses: []harnessSpec{
			{Name: "VxC05", ExtDir: tvDir("C05"), Quick: map[string]int{"R": 1200, "L": 2}, Thorough: map[string]int{"R": 100000, "L": 3}, Variants: func() []map[string]int {
				var v []map[string]int
				for fn := 0; fn <= 10; fn++ {
					m := map[string]int{"FN": fn}
					if fn == 6 {
						m["R"] = 40 // two independent integers
					}
					if fn == 9 {
						m["R"] = 60 // 64-bit products through FormatInt's division kernels
					}
					v = append(v, m)
				}
				return v
			}(), MaxSteps: 500_000},
		},
	})

	// ---------------------------------------------------------------- C02 (translation validation)
	register(&checkSpec{
		ID:    "C02",
		Level: "translation_validation",
		Rule:  "programs = the 23 templates of harness/tv/c02/coll.xgo (comprehension filters with an init statement that is an increment, a call or a compound assignment; list and map literals, xs <- v / v, w / ys..., for-in with index and with filter, list/map comprehensions with filter and with two and three (independent and dependent) for-phrases, existence and selection comprehensions with 1 and 2 results, command-style call, trailing lambda), compiled by the compiler of the current tree; inputs = slice contents (length <= L, elements in [-9,9]) and scalars as SMT variables; results and the instrumented evaluation trace of the emitted Go are compared with the explicit Go expansion",
		Assumptions: []string{
			"translation validation of the listed templates, not of every program; element type int only (maps compared by lookup, not by iteration order)",
			"bound: slices of at most L elements",
		},
		Prepare: func(tier string) error { _, err := prepareTV("C02"); return err },
		Extra:   nil, // programs are counted from the emitted Go (tvCountPrograms) by the driver
		Harnesses: []harnessSpec{
			{Name: "VxC02", ExtDir: tvDir("C02"), Quick: map[string]int{"L": 2}, Thorough: map[string]int{"L": 3}, Variants: func() []map[string]int {
				var v []map[string]int
				for fn := 0; fn <= 20; fn++ {
					v = append(v, map[string]int{"FN": fn})
				}
				return v
			}(), MaxSteps: 500_000},
		},
	})

	// ---------------------------------------------------------------- C10 (translation validation)
	register(&checkSpec{
		ID:    "C10",
		Level: "translation_validation",
		Rule:  "programs = the 36 overload sets of harness/tv/c10/ovl.xgo: four sets whose type, method or function names contain underscores (the mangled overload names use underscores as separators); one-parameter sets {int, string, bool} as function literals and as named functions in all 6 orders each, two-parameter sets {(int,int), (int,string), (string,int), (string,string)} in 8 of the 24 orders, method sets {int, string, *foo} in all 6 orders, operator sets {(num,int), (num,num), (int,num)} in all 6 orders; compiled by the compiler of the current tree; every candidate returns its own tag combined with its arguments; inputs = the arguments as SMT variables; each call in the emitted Go must return the tag of the candidate whose parameter types accept the arguments",
		Assumptions: []string{
			"translation validation of the listed overload sets, not of every overload declaration; float64 candidates (untyped constant defaulting) are not covered",
			"the inputs dimension is small here: the content of the check is the family of candidate orders and declaration styles",
		},
		Prepare: func(tier string) error { _, err := prepareTV("C10"); return err },
		Extra:   nil, // programs are counted from the emitted Go (tvCountPrograms) by the driver
		Harnesses: []harnessSpec{
			{Name: "VxC10", ExtDir: tvDir("C10"), Quick: map[string]int{}, Variants: []map[string]int{{"FAM": 0}, {"FAM": 1}, {"FAM": 2}, {"FAM": 3}, {"FAM": 4}}, MaxSteps: 500_000},
		},
	})

	// ---------------------------------------------------------------- C25 (translation validation)
	register(&checkSpec{
		ID:    "C25",
		Level: "translation_validation",
		Rule:  "programs = the 24 functions and the main function of harness/tv/c25/*.gostyle (function literals that cannot become lambda expressions: bare return, variadic; fmt call in the post statement of a for loop as the only use of fmt; fmt.Println/Printf/Print, Sprint/Sprintf/Sprintln, Errorf, Fprint* to a strings.Builder, package functions and methods in lower-case call style, function literals as arguments: one/two parameters and results, statement body, named result, unnamed parameter; local variables, block-local variables and parameters named fmt; local names printf, echo, errorf, sprint next to the fmt calls they would capture); the text is converted by the real x/format.GopstyleSource and compiled by the real compiler, and - unchanged - taken as the Go reference; inputs = ints, a string of <= 2 symbolic printable bytes, a slice of <= 3 ints; results and standard output of both versions are compared by symbolic execution",
		Assumptions: []string{
			"translation validation of the listed Go functions, not of every Go program; standard output is observed at fmt.Print/Printf/Println (the engine's fmt model: %d %s %v %q %x and the Sprint spacing rules); the builtin println and os.Stdout writes are not used by the templates",
			"bound: |ints| <= 50, strings <= 2 bytes, slices <= 3 elements",
		},
		Prepare: func(tier string) error { _, err := prepareTV("C25"); return err },
		Extra:   nil, // programs are counted from the emitted Go (tvCountPrograms) by the driver
		Harnesses: []harnessSpec{
			{Name: "VxC25", ExtDir: tvDir("C25"), Quick: map[string]int{}, Variants: func() []map[string]int {
				var v []map[string]int
				for fn := 0; fn <= 11; fn++ {
					v = append(v, map[string]int{"FN": fn})
				}
				return v
			}(), MaxSteps: 500_000},
		},
	})

	// ---------------------------------------------------------------- C01 (translation validation)
	register(&checkSpec{
		ID:    "C01",
		Level: "translation_validation",
		Rule:  "programs = the 22 Go functions of harness/tv/c01/prog.gotmpl (switch clauses consisting only of fallthrough, empty clauses, default in the middle, switch init statements, condition-only loops, continue/break inside switch inside for, range over strings, if/else chains with init statements, struct copies and comparison, embedded fields, arrays of structs, iota and typed constants, package-level initialisation order, integer/bit arithmetic, strings and slicing, slices with aliasing/append/copy, maps, value and pointer methods, closures capturing and mutating loop variables, defer order with arguments, recover from index/division panics, switch with fallthrough, labelled break/continue, goto, tuple assignment order, shadowing, variadics, named results modified by defer, interfaces and type switches); the same text is compiled by the XGo compiler of the current tree and taken as plain Go; inputs = integer/string arguments as SMT variables; results, panics and traces of the two versions are compared by symbolic execution",
		Assumptions: []string{
			"translation validation of the listed Go functions, not of every Go program; the reference is the same source executed by the engine as Go (not a binary built by the Go toolchain); println/stdout and exit status are not exercised",
			"bound: |ints| <= 40, loop bounds <= 5, strings <= 2 bytes",
		},
		Prepare: func(tier string) error { _, err := prepareTV("C01"); return err },
		Extra:   nil, // programs are counted from the emitted Go (tvCountPrograms) by the driver
		Harnesses: []harnessSpec{
			{Name: "VxC01", ExtDir: tvDir("C01"), Quick: map[string]int{"KF_INITORDER": 0}, Variants: func() []map[string]int {
				var v []map[string]int
				for fn := 0; fn <= 21; fn++ {
					v = append(v, map[string]int{"FN": fn})
				}
				return v
			}(), MaxSteps: 500_000},
		},
	})

	// ---------------------------------------------------------------- C11 (translation validation)
	register(&checkSpec{
		ID:    "C11",
		Level: "translation_validation",
		Rule:  "programs = the class files harness/tv/c11/cls/Counter.gox (var block with int, string, slice and map fields; six methods with parameters, results, field reads/writes, this.Method and bare method calls) Stats.gox (fields and a method named like predeclared identifiers - min, max, len, cap, print - used bare) and Gauge.gox (import, const and type declarations before the var block; named-type, array and self-pointer fields; package function call) plus five driver functions in main.xgo, compiled as one package by the compiler of the current tree; inputs = method arguments and initial field values as SMT variables; compared with the explicit struct + pointer-receiver methods; the exact field list and method set are checked statically when the generated package is type-checked",
		Assumptions: []string{
			"translation validation of this class, not of every class; field types int, string, []int, map[int]bool",
			"'exactly those fields and methods': unkeyed composite literal and interface satisfaction in the generated package (go/types at load time), not a reflective enumeration: extra methods would go unnoticed",
		},
		Prepare: func(tier string) error { _, err := prepareTV("C11"); return err },
		Extra:   nil, // programs are counted from the emitted Go (tvCountPrograms) by the driver
		Harnesses: []harnessSpec{
			{Name: "VxC11", ExtDir: tvDir("C11"), Quick: map[string]int{}, Variants: []map[string]int{{"FN": 0}, {"FN": 1}, {"FN": 2}, {"FN": 3}, {"FN": 4}, {"FN": 5}, {"FN": 6}}, MaxSteps: 500_000},
		},
	})

	// ---------------------------------------------------------------- C14
	c14Files := []string{"c14/c14.go", "gen:astkinds:ast", "gen:goastkinds", "gen:corpus:token/*.go;ast/*.go;scanner/*.go;x/xgoprojs/*.go;x/fakenet/*.go;x/watcher/*.go;format/*.go;format/formatutil/*.go;tpl/token/*.go;tpl/types/*.go;tpl/ast/*.go;env/*.go:60:12000"}
	register(&checkSpec{
		ID:   "C14",
		Rule: "the same bytes go through the real XGo parser and GOROOT's go/parser (both executed from go/ssa): (a) 44 concrete well-typed Go contexts (expressions, statements, and type positions of parameters, results, fields, function types, interface methods, closures, receivers) around a window of <= N symbolic bytes, (b) up to 60 .go files of the repository (embedded at check time) as a concrete corpus; when go/parser accepts, the XGo parser must accept and the tree signatures (node kinds, operator/keyword tokens, identifier names, literal values, channel directions, child structure; generated at check time from the struct definitions of both ast packages) must be equal",
		Assumptions: []string{
			"the premise 'go/types type-checks' is evaluated natively during replay (go/types on the concrete counter-example): an ill-typed counter-example does not reproduce and is listed as not reproduced",
			"window bytes are ASCII without # $ ? @ ~ (XGo-only lexemes, see C16); positions and comments are not compared",
			"bound: windows of <= N bytes in the listed contexts; corpus files of at most 12000 bytes",
			"open known finding assumed away: declarations with type parameters",
		},
		Harnesses: []harnessSpec{
			{Name: "VxC14Corpus", Pkg: "github.com/goplus/xgo/parser", Files: c14Files, Quick: map[string]int{"N": 0, "P": 0, "KF_BANG": 0, "KF_GENERICS": 0}, MaxSteps: 80_000_000},
			{Name: "VxC14", Pkg: "github.com/goplus/xgo/parser", Files: c14Files,
				Quick: map[string]int{"N": 2, "KF_BANG": 0, "KF_GENERICS": 0}, Thorough: map[string]int{"N": 3, "KF_BANG": 0, "KF_GENERICS": 0}, Variants: c15Variants(44), ThoroughCore: 6, MaxSteps: 8_000_000},
		},
	})

	// ---------------------------------------------------------------- C37
	c37Files := []string{"c37/c37.go", "gen:goastkinds", "gen:corpus:token/*.go;ast/*.go;ast/fromgo/*.go;ast/togo/*.go;scanner/*.go;x/xgoprojs/*.go;x/fakenet/*.go;x/watcher/*.go;format/*.go;x/typesutil/*.go;tpl/types/*.go;tpl/ast/*.go;x/jsonrpc2/*.go;cl/internal/typesutil/*.go:60:14000"}
	register(&checkSpec{
		ID:   "C37",
		Rule: "Go source = (a) one of 40 concrete declaration contexts (embedded fields with and without tags, embedded interfaces, fields of function type, unnamed parameters, functions, methods, receivers, variadics, named results, type definitions and aliases, struct fields with tags, interface methods, union constraints, type parameters, instantiations, values with every operator position, literals, slice expressions, calls with ellipsis, channel directions, array lengths, composite literals, type assertions, closures, import specs) around a window of <= N symbolic bytes, (b) up to 60 .go files of the repository as a concrete corpus; parsed by GOROOT's go/parser (executed from go/ssa), converted by the real fromgo.ASTFile and back by the real togo.ASTFile; per declaration the header signature (node kinds, tokens, names, literal values, channel directions, structure; generated at check time from go/ast's struct definitions) must be unchanged",
		Assumptions: []string{
			"bound: windows of <= N ASCII bytes in the listed contexts; corpus files of at most 14000 bytes",
			"function bodies and closure bodies are dropped by the conversion by design and are not compared; positions and comments are not compared; 'printed headers equal' is decided as structural equality of exactly the fields go/printer prints (go/printer itself is not executed)",
		},
		Harnesses: []harnessSpec{
			{Name: "VxC37Corpus", Pkg: "github.com/goplus/xgo/ast/togo", Files: c37Files, Quick: map[string]int{"N": 0, "P": 0}, MaxSteps: 80_000_000},
			{Name: "VxC37", Pkg: "github.com/goplus/xgo/ast/togo", Files: c37Files,
				Quick: map[string]int{"N": 2}, Thorough: map[string]int{"N": 3}, Variants: c15Variants(40), ThoroughCore: 6, MaxSteps: 8_000_000},
		},
	})

	// ---------------------------------------------------------------- C22
	register(&checkSpec{
		ID:   "C22",
		Rule: "trees built programmatically without positions and without ParenExpr nodes from 15 shape families (error-wrap expressions with and without default as operands of selector, call, index, error-wrap and slice positions; lambdas as operands and callees; command-style calls in expression position and with arguments that start with a unary operator [open known finding]; binary operators nested left, right, on both sides and three deep; unary over binary; unary operands of binary operators; unary over unary; pointer indirection; selector, index, call, slice, type assertion and error-wrap on a binary or unary operand; error-wrap defaults; lambda bodies; command-style call whose first argument needs parentheses; range expression operands); every binary operator is a token value the solver enumerates over everything the real Token.Precedence() accepts, every unary operator over {+ - ! ^ & <-}; the real printer prints the tree, the real parser parses the text, and the parsed tree without its ParenExpr nodes must have the signature of the original (generated from the current ast package)",
		Assumptions: []string{
			"bound: the listed shape families (depth <= 3, identifiers as leaves); statements other than expression, assignment and for-in are not synthesized",
			"the token values are solver-enumerated selectors (as in C33): the content of the check is the family of operator combinations, decided per combination by executing the real printer and parser",
		},
		Harnesses: []harnessSpec{
			{Name: "VxC22", Pkg: "github.com/goplus/xgo/printer", Files: []string{"c22/c22.go", "gen:astkinds:ast"},
				Quick: map[string]int{"KF_CMDSTYLE": 0}, Variants: func() []map[string]int {
					var v []map[string]int
					for sh := 0; sh <= 14; sh++ {
						v = append(v, map[string]int{"S": sh})
					}
					return v
				}(), MaxSteps: 10_000_000},
		},
	})

	// ---------------------------------------------------------------- C19 / C20 / C21
	register(&checkSpec{
		ID:   "C19",
		Rule: "source = one of 77 concrete XGo contexts (statements, operators, calls, command calls, slice literals, comprehensions, ranges, trailing //, /* */ and # comments, doc comments, error-wrap, lambda, struct fields, var and import blocks, string interpolation, unit literals, switch, redundant parentheses and nested operands, multi-line argument and element lists, one-line function bodies, comments inside one-line bodies, lambdas, command calls, comprehensions, before c-string literals, at the end of the file, one-line type bodies, declaration groups with aliases, one-line function literals around the 100-column one-line limit written with surplus blanks) around a window of <= N symbolic bytes; when the real parser accepts it the real format.Source runs on it and its output is parsed again: no error and an equal tree",
		Assumptions: []string{
			"bound: windows of <= N ASCII bytes (no CR) in the listed contexts; program shapes and layout decisions over many lines are outside",
			"tree comparison through signatures generated from the current ast package (kinds, operator tokens, names, literal values, structure); comments, explicit empty statements, redundant nested parentheses ((e)) and the order of import specs are not compared (C19)",
			"comment texts are compared after trimming trailing blanks (C21)",
		},
		Harnesses: []harnessSpec{
			{Name: "VxC19", Pkg: "github.com/goplus/xgo/format", Files: []string{"c19/c19.go", "gen:astkinds:ast"},
				Quick: map[string]int{"N": 2, "WHICH": 19, "KF_DECLSEMI": 0}, Thorough: map[string]int{"N": 3, "WHICH": 19, "KF_DECLSEMI": 0}, Variants: c15Variants(77), ThoroughCore: 5, MaxSteps: 30_000_000},
		},
	})

	register(&checkSpec{
		ID:   "C20",
		Rule: "source = one of 77 concrete XGo contexts (statements, operators, calls, command calls, slice literals, comprehensions, ranges, trailing //, /* */ and # comments, doc comments, error-wrap, lambda, struct fields, var and import blocks, string interpolation, unit literals, switch, redundant parentheses and nested operands, multi-line argument and element lists, one-line function bodies, comments inside one-line bodies, lambdas, command calls, comprehensions, before c-string literals, at the end of the file, one-line type bodies, declaration groups with aliases, one-line function literals around the 100-column one-line limit written with surplus blanks) around a window of <= N symbolic bytes; when the real parser accepts it the real format.Source runs on it and its output is formatted again and must not change",
		Assumptions: []string{
			"bound: windows of <= N ASCII bytes (no CR) in the listed contexts; program shapes and layout decisions over many lines are outside",
			"tree comparison through signatures generated from the current ast package (kinds, operator tokens, names, literal values, structure); comments, explicit empty statements, redundant nested parentheses ((e)) and the order of import specs are not compared (C19)",
			"comment texts are compared after trimming trailing blanks (C21)",
		},
		Harnesses: []harnessSpec{
			{Name: "VxC19", Pkg: "github.com/goplus/xgo/format", Files: []string{"c19/c19.go", "gen:astkinds:ast"},
				Quick: map[string]int{"N": 2, "WHICH": 20, "KF_DECLSEMI": 0, "KF_ONELINE_EMPTY": 0, "KF_PAREN_LINES": 0, "KF_ENV_LINES": 0}, Thorough: map[string]int{"N": 3, "WHICH": 20, "KF_DECLSEMI": 0, "KF_ONELINE_EMPTY": 0, "KF_PAREN_LINES": 0, "KF_ENV_LINES": 0}, Variants: c15Variants(77), ThoroughCore: 5, MaxSteps: 30_000_000},
		},
	})

	register(&checkSpec{
		ID:   "C21",
		Rule: "source = one of 77 concrete XGo contexts (statements, operators, calls, command calls, slice literals, comprehensions, ranges, trailing //, /* */ and # comments, doc comments, error-wrap, lambda, struct fields, var and import blocks, string interpolation, unit literals, switch, redundant parentheses and nested operands, multi-line argument and element lists, one-line function bodies, comments inside one-line bodies, lambdas, command calls, comprehensions, before c-string literals, at the end of the file, one-line type bodies, declaration groups with aliases, one-line function literals around the 100-column one-line limit written with surplus blanks) around a window of <= N symbolic bytes; when the real parser accepts it the real format.Source runs on it and the COMMENT tokens of input and output (real scanner) must be the same sequence",
		Assumptions: []string{
			"bound: windows of <= N ASCII bytes (no CR) in the listed contexts; program shapes and layout decisions over many lines are outside",
			"tree comparison through signatures generated from the current ast package (kinds, operator tokens, names, literal values, structure); comments, explicit empty statements, redundant nested parentheses ((e)) and the order of import specs are not compared (C19)",
			"comment texts are compared after trimming trailing blanks (C21)",
		},
		Harnesses: []harnessSpec{
			{Name: "VxC19", Pkg: "github.com/goplus/xgo/format", Files: []string{"c19/c19.go", "gen:astkinds:ast"},
				Quick: map[string]int{"N": 2, "WHICH": 21, "KF_DECLSEMI": 0}, Thorough: map[string]int{"N": 3, "WHICH": 21, "KF_DECLSEMI": 0}, Variants: c15Variants(77), ThoroughCore: 5, MaxSteps: 30_000_000},
		},
	})
}
