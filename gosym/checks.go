package main

// Registry of checks: one entry per claimed property.

func init() {
	register(&checkSpec{
		ID: "C35",
		Rule: "one path = one equivalence class of argument lists (all byte values satisfying the path condition); inputs: up to K arguments of 0..L symbolic bytes each",
		Assumptions: []string{
			"bound: at most K arguments of at most L bytes each (K, L in evidence.harnesses[].params); longer lists/arguments are outside the claim",
			"reference classification of 'file argument' is written in the harness from the documentation of filepath.Ext (final dot in the final slash-separated element, at least one byte after it)",
			"solver: z3 4.8.12 decides branch feasibility; engine semantics cross-validated natively on sampled path models",
		},
		Harnesses: []harnessSpec{{
			Name: "VxC35", Pkg: "github.com/goplus/xgo/x/xgoprojs", Files: []string{"c35/c35.go"},
			Quick: map[string]int{"K": 3, "L": 3}, Thorough: map[string]int{"K": 4, "L": 4},
		}},
	})
}
