package main

// Registry of checks: one entry per claimed property.

func init() {
	register(&checkSpec{
		ID: "C35",
		Rule: "one path = one equivalence class of argument lists (all byte values satisfying the path condition); inputs: up to K arguments of 0..L symbolic bytes each",
		Assumptions: []string{
			"bound: at most K arguments of at most L bytes each (K, L in evidence.harnesses[].params); longer lists/arguments are outside the claim",
			"reference classification of 'file argument' is written in the harness from the documentation of filepath.Ext (final dot in the final slash-separated element, at least one byte after it)",
			"solver: z3 4.8.12 decides branch feasibility; engine semantics cross-validated natively on sampled path models",
		},
		Harnesses: []harnessSpec{{
			Name: "VxC35", Pkg: "github.com/goplus/xgo/x/xgoprojs", Files: []string{"c35/c35.go"},
			Quick: map[string]int{"K": 3, "L": 3}, Thorough: map[string]int{"K": 4, "L": 4},
		}},
	})

	// ---------------------------------------------------------------- C15
	c15Variants := func(n int) []map[string]int {
		var v []map[string]int
		for p := 0; p < n; p++ {
			v = append(v, map[string]int{"P": p})
		}
		return v
	}
	register(&checkSpec{
		ID:   "C15",
		Rule: "one path = one class of inputs (all byte strings satisfying the path condition) through the real Scanner.Scan; Stream: every source of <= N bytes scanned to EOF; Step: T consecutive Scan calls over (concrete context P) + (window of <= N symbolic bytes) from an arbitrary scanner state (insertSemi, nParen, line-start symbolic)",
		Assumptions: []string{
			"bound: Stream covers every input of at most N bytes; Step covers tokens reachable within the window after each of the listed concrete contexts; longer inputs are outside the claim",
			"ASCII=1: window bytes < 0x80 (non-ASCII bytes only through the concrete contexts); ASCII=0 runs in the thorough tier",
			"token design conventions adopted by the oracle: the literal of CSTRING/PYSTRING is the quoted part after the c / py prefix; an inserted semicolon has zero width or covers exactly the newline it replaces; a number's UNIT is a separate token directly after the number",
			"progress measure: 4*(len-offset) + 2*[unit pending] + [insertSemi] strictly decreases on every non-EOF Scan (gives: at most one token per byte plus inserted semicolons)",
			"stubs: fmt.Sprintf (error message text only), sync.Mutex (no-op, single goroutine)",
		},
		Harnesses: []harnessSpec{
			{Name: "VxC15Stream", Pkg: "github.com/goplus/xgo/scanner", Files: []string{"c15/c15.go"},
				Quick: map[string]int{"N": 3, "ASCII": 1, "P": 0}, Thorough: map[string]int{"N": 3, "ASCII": 0, "P": 0},
				BudgetViolation: true, MaxSteps: 400_000},
			{Name: "VxC15Step", Pkg: "github.com/goplus/xgo/scanner", Files: []string{"c15/c15.go"},
				Quick: map[string]int{"N": 2, "ASCII": 1, "T": 3}, Thorough: map[string]int{"N": 3, "ASCII": 1, "T": 3},
				Variants: c15Variants(43), BudgetViolation: true, MaxSteps: 400_000},
		},
	})

	// ---------------------------------------------------------------- C16
	register(&checkSpec{
		ID:   "C16",
		Rule: "one path = one class of inputs through BOTH real scanners (XGo scanner.Scan and GOROOT go/scanner.Scan, go1.23.5) on the same bytes: concrete context P + window of <= N symbolic bytes, both comment modes; tokens compared until EOF",
		Assumptions: []string{
			"Go lexemes only: window bytes exclude # $ ? @; an input whose XGo token stream contains =>, ->, <>, UNIT, RAT, CSTRING, PYSTRING, ?, $ is outside the property and dropped",
			"reference: go/scanner of the installed toolchain (go1.23.5), executed symbolically from GOROOT source",
			"open known findings are assumed away by class (known_findings.json: tilde, bang-newline, ellipsis-newline, autosemi-before-comment); comparison of a stream stops at the first token where such a class applies",
			"ASCII=1: window bytes < 0x80",
		},
		Harnesses: []harnessSpec{
			{Name: "VxC16", Pkg: "github.com/goplus/xgo/scanner", Files: []string{"c16/c16.go"},
				Quick: map[string]int{"N": 2, "ASCII": 1, "KF_TILDE": 0, "KF_BANG": 0, "KF_ELLIPSIS": 0, "KF_AUTOSEMI_COMMENT": 0},
				Thorough: map[string]int{"N": 3, "ASCII": 1, "KF_TILDE": 0, "KF_BANG": 0, "KF_ELLIPSIS": 0, "KF_AUTOSEMI_COMMENT": 0},
				Variants: c15Variants(42), MaxSteps: 600_000},
		},
	})

	// ---------------------------------------------------------------- C32
	register(&checkSpec{
		ID:   "C32",
		Rule: "one path = one class of inputs through BOTH real scanners (tpl/scanner.Scan and scanner.Scan) on the same bytes: concrete context P + window of <= N symbolic bytes, both comment modes; offsets, literals, inserted semicolons and EOF compared until EOF",
		Assumptions: []string{
			"shared lexemes only: window bytes exclude ~ and @ (TPL-only tokens); an input whose XGo stream contains a keyword, c\"..\" or py\"..\", or whose TPL stream contains ** is outside the property and dropped",
			"token kinds are not compared (different token sets); comment literals are compared after removing carriage returns (the two stripCR differ by design)",
			"ASCII=1: window bytes < 0x80",
		},
		Harnesses: []harnessSpec{
			{Name: "VxC32", Pkg: "github.com/goplus/xgo/tpl/scanner", Files: []string{"c32/c32.go"},
				Quick: map[string]int{"N": 2, "ASCII": 1}, Thorough: map[string]int{"N": 3, "ASCII": 1},
				Variants: c15Variants(41), MaxSteps: 600_000},
		},
	})
}
