package main

// Loading /repo's current working tree (plus overlaid harness files) into go/ssa.

import (
	"fmt"
	"go/types"
	"os"
	"os/exec"
	"path/filepath"
	"runtime"
	"strings"

	"golang.org/x/tools/go/packages"
	"golang.org/x/tools/go/ssa"
	"golang.org/x/tools/go/ssa/ssautil"
)

var sizes64 = types.SizesFor("gc", "amd64")

var repoRoot = envOr("VERIF_REPO", "/repo")
var verifRoot = envOr("VERIF_ROOT", "/verif")

const repoModule = "github.com/goplus/xgo"

func envOr(k, d string) string {
	if v := os.Getenv(k); v != "" {
		return v
	}
	return d
}

func goEnv() []string {
	env := os.Environ()
	env = append(env, "GOFLAGS=-mod=mod", "GOPROXY=off", "GOSUMDB=off", "GOTOOLCHAIN=local", "CGO_ENABLED=0")
	return env
}

// pkgDir maps an import path inside the repo module to its directory.
func pkgDir(importPath string) string {
	rel := strings.TrimPrefix(strings.TrimPrefix(importPath, repoModule), "/")
	return filepath.Join(repoRoot, rel)
}

// harnessOverlay builds the overlay (virtual path -> contents) injecting the
// harness files and the vx runtime into the package directory.
func harnessOverlay(importPath string, files []string) (map[string][]byte, string, error) {
	dir := pkgDir(importPath)
	pkgName, err := packageNameOf(dir)
	if err != nil {
		return nil, "", err
	}
	ov := map[string][]byte{}
	rt, err := os.ReadFile(filepath.Join(verifRoot, "harness", "rt", "vx_rt.go.txt"))
	if err != nil {
		return nil, "", err
	}
	ov[filepath.Join(dir, "zz_vx_rt.go")] = []byte(strings.Replace(string(rt), "package PKG", "package "+pkgName, 1))
	instrument := false
	for _, f := range files {
		if f == "gen:instrument" {
			instrument = true
			continue
		}
		if strings.HasPrefix(f, "gen:") {
			parts := strings.Split(f, ":")
			var body, imports string
			var err error
			switch parts[1] {
			case "astkinds":
				qual := ""
				if len(parts) > 2 {
					qual = parts[2]
				}
				body, err = genASTHelpers(filepath.Join(repoRoot, "ast"), qual)
				if qual != "" {
					imports = "import \"" + repoModule + "/ast\"\n\n"
				}
			case "goastkinds":
				// the same helpers for GOROOT's go/ast (vxGoKind, vxGoChildren, vxGoLabel)
				goroot := runtime.GOROOT()
				if out, e := exec.Command("go", "env", "GOROOT").Output(); e == nil {
					goroot = strings.TrimSpace(string(out))
				}
				body, err = genASTHelpersEx(filepath.Join(goroot, "src", "go", "ast"), "goast", "vxGo", true)
				imports = "import goast \"go/ast\"\n\n"
			case "corpus":
				maxFiles, maxBytes := 40, 4000
				if len(parts) > 3 {
					fmt.Sscan(parts[3], &maxFiles)
				}
				if len(parts) > 4 {
					fmt.Sscan(parts[4], &maxBytes)
				}
				body, err = genCorpus(parts[2], maxFiles, maxBytes)
			default:
				err = fmt.Errorf("unknown generator %q", f)
			}
			if err != nil {
				return nil, "", err
			}
			ov[filepath.Join(dir, "zz_vx_gen_"+parts[1]+".go")] = []byte("package " + pkgName + "\n\n" + imports + body)
			continue
		}
		src, err := os.ReadFile(filepath.Join(verifRoot, "harness", f))
		if err != nil {
			return nil, "", err
		}
		s := string(src)
		// harness files are written with "package PKG" so they can be moved between packages
		s = strings.Replace(s, "package PKG", "package "+pkgName, 1)
		ov[filepath.Join(dir, "zz_vx_"+strings.ReplaceAll(f, "/", "_"))] = []byte(s)
	}
	if instrument {
		// schedule instrumentation of the package under test and of the harness files (overlay only)
		ents, err := os.ReadDir(dir)
		if err != nil {
			return nil, "", err
		}
		for _, e := range ents {
			n := e.Name()
			if e.IsDir() || !strings.HasSuffix(n, ".go") || strings.HasSuffix(n, "_test.go") || strings.HasPrefix(n, "zz_vx_") {
				continue
			}
			p := filepath.Join(dir, n)
			src, err := os.ReadFile(p)
			if err != nil {
				return nil, "", err
			}
			out, changed, err := instrumentSource(p, src)
			if err != nil {
				return nil, "", fmt.Errorf("instrumenting %s: %v", p, err)
			}
			if changed {
				ov[p] = out
			}
		}
		for p, src := range ov {
			if !strings.HasPrefix(filepath.Base(p), "zz_vx_") || filepath.Base(p) == "zz_vx_rt.go" {
				continue
			}
			out, _, err := instrumentSource(p, src)
			if err != nil {
				return nil, "", fmt.Errorf("instrumenting %s: %v", p, err)
			}
			ov[p] = out
		}
	}
	return ov, pkgName, nil
}

func packageNameOf(dir string) (string, error) {
	ents, err := os.ReadDir(dir)
	if err != nil {
		return "", err
	}
	for _, e := range ents {
		n := e.Name()
		if strings.HasSuffix(n, ".go") && !strings.HasSuffix(n, "_test.go") && !strings.HasPrefix(n, "zz_vx_") {
			b, err := os.ReadFile(filepath.Join(dir, n))
			if err != nil {
				continue
			}
			for _, line := range strings.Split(string(b), "\n") {
				line = strings.TrimSpace(line)
				if strings.HasPrefix(line, "package ") {
					f := strings.Fields(line)
					if len(f) >= 2 {
						return f[1], nil
					}
				}
			}
		}
	}
	return "", fmt.Errorf("no Go package in %s", dir)
}

type loaded struct {
	prog *ssa.Program
	pkg  *ssa.Package
	all  []*packages.Package
}

func loadProgram(importPath string, overlay map[string][]byte, extraPatterns ...string) (*loaded, error) {
	return loadProgramAt(repoRoot, importPath, overlay, extraPatterns...)
}

// loadProgramAt loads a package from an arbitrary module directory (translation-validation
// packages live in a generated module under /verif/work that replaces the repo module by /repo).
func loadProgramAt(dir, importPath string, overlay map[string][]byte, extraPatterns ...string) (*loaded, error) {
	cfg := &packages.Config{
		Mode:    packages.LoadAllSyntax,
		Dir:     dir,
		Overlay: overlay,
		Env:     goEnv(),
	}
	pats := append([]string{importPath}, extraPatterns...)
	pkgs, err := packages.Load(cfg, pats...)
	if err != nil {
		return nil, err
	}
	var errs []string
	packages.Visit(pkgs, nil, func(p *packages.Package) {
		for _, e := range p.Errors {
			errs = append(errs, e.Error())
		}
	})
	if len(errs) > 0 {
		if len(errs) > 10 {
			errs = errs[:10]
		}
		return nil, fmt.Errorf("package load errors:\n%s", strings.Join(errs, "\n"))
	}
	prog, spkgs := ssautil.AllPackages(pkgs, ssa.InstantiateGenerics)
	prog.Build()
	var main *ssa.Package
	for k, p := range pkgs {
		if p.PkgPath == importPath || (importPath == "." && k == 0) {
			main = spkgs[k]
		}
	}
	if main == nil {
		return nil, fmt.Errorf("package %s not found after load", importPath)
	}
	return &loaded{prog: prog, pkg: main, all: pkgs}, nil
}
