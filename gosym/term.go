package main

// Hash-consed SMT terms (Bool and fixed-width bit-vectors), with
// constant folding, a concrete evaluator (the "model" side of the
// concolic run) and SMT-LIB2 serialisation.

import (
	"fmt"
	"math/bits"
	"strings"
)

type Op uint8

const (
	opConst Op = iota
	opVar
	opAdd
	opSub
	opMul
	opUDiv
	opSDiv
	opURem
	opSRem
	opAnd
	opOr
	opXor
	opNot // bitwise not / bool not
	opNeg
	opShl
	opLShr
	opAShr
	opConcat
	opExtract // c = hi<<8 | lo
	opZExt    // to width w
	opSExt    // to width w
	opIte
	opEq
	opULt
	opULe
	opSLt
	opSLe
	opBAnd // boolean and
	opBOr  // boolean or
	opUF   // uninterpreted function application (name, args) -> BV w
)

var opNames = [...]string{
	opAdd: "bvadd", opSub: "bvsub", opMul: "bvmul", opUDiv: "bvudiv", opSDiv: "bvsdiv",
	opURem: "bvurem", opSRem: "bvsrem", opAnd: "bvand", opOr: "bvor", opXor: "bvxor",
	opNot: "bvnot", opNeg: "bvneg", opShl: "bvshl", opLShr: "bvlshr", opAShr: "bvashr",
	opConcat: "concat", opIte: "ite", opEq: "=", opULt: "bvult", opULe: "bvule",
	opSLt: "bvslt", opSLe: "bvsle", opBAnd: "and", opBOr: "or",
}

// Term is a Bool (w==0) or a bit-vector of width w (1..64).
type Term struct {
	op   Op
	w    uint8
	c    uint64 // constant value, var id, or extract hi<<8|lo
	a    [3]*Term
	na   uint8
	name string  // var / UF name
	more []*Term // UF args beyond 3 (rare)
	id   uint32

	evalGen uint32
	evalVal uint64
	size    uint32 // dag-ish size estimate (tree size capped)
}

func (t *Term) isConst() bool { return t.op == opConst }
func (t *Term) isBool() bool  { return t.w == 0 }

type termKey struct {
	op         Op
	w          uint8
	c          uint64
	a0, a1, a2 uint32
	name       string
}

// TermStore is one worker's hash-consing table.
type TermStore struct {
	tab    map[termKey]*Term
	nextID uint32
	tt, ff *Term
	gen    uint32 // evaluation generation (one per path run)
	model  map[uint64]uint64
	ufTab  map[string]uint64 // per-run UF interpretation: name|args -> value
}

func NewTermStore() *TermStore {
	s := &TermStore{tab: make(map[termKey]*Term), nextID: 1}
	s.tt = s.mk(Term{op: opConst, w: 0, c: 1})
	s.ff = s.mk(Term{op: opConst, w: 0, c: 0})
	return s
}

func (s *TermStore) mk(t Term) *Term {
	k := termKey{op: t.op, w: t.w, c: t.c, name: t.name}
	if t.na > 0 {
		k.a0 = t.a[0].id
	}
	if t.na > 1 {
		k.a1 = t.a[1].id
	}
	if t.na > 2 {
		k.a2 = t.a[2].id
	}
	if len(t.more) > 0 {
		var sb strings.Builder
		sb.WriteString(t.name)
		for _, m := range t.more {
			fmt.Fprintf(&sb, ",%d", m.id)
		}
		k.name = sb.String()
	}
	if r, ok := s.tab[k]; ok {
		return r
	}
	nt := new(Term)
	*nt = t
	nt.id = s.nextID
	s.nextID++
	sz := uint32(1)
	for i := 0; i < int(t.na); i++ {
		sz += t.a[i].size
	}
	if sz > 1<<30 {
		sz = 1 << 30
	}
	nt.size = sz
	s.tab[k] = nt
	return nt
}

func mask(w uint8) uint64 {
	if w >= 64 {
		return ^uint64(0)
	}
	return (uint64(1) << w) - 1
}

func sext64(v uint64, w uint8) int64 {
	if w >= 64 {
		return int64(v)
	}
	sh := 64 - uint(w)
	return int64(v<<sh) >> sh
}

func (s *TermStore) Bool(b bool) *Term {
	if b {
		return s.tt
	}
	return s.ff
}

func (s *TermStore) Const(w uint8, v uint64) *Term {
	if w == 0 {
		return s.Bool(v != 0)
	}
	return s.mk(Term{op: opConst, w: w, c: v & mask(w)})
}

// Var returns the variable with the given id and width (0 = Bool).
func (s *TermStore) Var(id uint64, w uint8) *Term {
	return s.mk(Term{op: opVar, w: w, c: id})
}

func (s *TermStore) un(op Op, w uint8, x *Term) *Term {
	return s.mk(Term{op: op, w: w, a: [3]*Term{x}, na: 1})
}
func (s *TermStore) bin(op Op, w uint8, x, y *Term) *Term {
	return s.mk(Term{op: op, w: w, a: [3]*Term{x, y}, na: 2})
}

func evalBin(op Op, w uint8, x, y uint64) uint64 {
	m := mask(w)
	switch op {
	case opAdd:
		return (x + y) & m
	case opSub:
		return (x - y) & m
	case opMul:
		return (x * y) & m
	case opUDiv:
		if y == 0 {
			return m
		}
		return x / y
	case opURem:
		if y == 0 {
			return x
		}
		return x % y
	case opSDiv:
		sx, sy := sext64(x, w), sext64(y, w)
		if sy == 0 {
			if sx < 0 {
				return 1
			}
			return m
		}
		if sy == -1 {
			return uint64(-sx) & m
		}
		return uint64(sx/sy) & m
	case opSRem:
		sx, sy := sext64(x, w), sext64(y, w)
		if sy == 0 {
			return x
		}
		if sy == -1 {
			return 0
		}
		return uint64(sx%sy) & m
	case opAnd:
		return x & y
	case opOr:
		return x | y
	case opXor:
		return x ^ y
	case opShl:
		if y >= uint64(w) {
			return 0
		}
		return (x << y) & m
	case opLShr:
		if y >= uint64(w) {
			return 0
		}
		return x >> y
	case opAShr:
		sx := sext64(x, w)
		if y >= uint64(w) {
			y = uint64(w) - 1
		}
		return uint64(sx>>y) & m
	case opEq:
		return b2u(x == y)
	case opULt:
		return b2u(x < y)
	case opULe:
		return b2u(x <= y)
	case opSLt:
		return b2u(sext64(x, w) < sext64(y, w))
	case opSLe:
		return b2u(sext64(x, w) <= sext64(y, w))
	case opBAnd:
		return x & y
	case opBOr:
		return x | y
	}
	panic("evalBin: bad op")
}

func b2u(b bool) uint64 {
	if b {
		return 1
	}
	return 0
}

// BinBV builds a bit-vector -> bit-vector binary operation.
func (s *TermStore) BinBV(op Op, x, y *Term) *Term {
	if x.w != y.w || x.w == 0 {
		panic(fmt.Sprintf("BinBV %v: width mismatch %d %d", op, x.w, y.w))
	}
	w := x.w
	if x.isConst() && y.isConst() {
		return s.Const(w, evalBin(op, w, x.c, y.c))
	}
	switch op {
	case opAdd:
		if x.isConst() && x.c == 0 {
			return y
		}
		if y.isConst() && y.c == 0 {
			return x
		}
		// (a + c1) + c2 -> a + (c1+c2)
		if y.isConst() && x.op == opAdd && x.a[1].isConst() {
			return s.BinBV(opAdd, x.a[0], s.Const(w, x.a[1].c+y.c))
		}
		if x.isConst() {
			x, y = y, x
		}
	case opSub:
		if y.isConst() && y.c == 0 {
			return x
		}
		if x == y {
			return s.Const(w, 0)
		}
		if y.isConst() {
			return s.BinBV(opAdd, x, s.Const(w, -y.c))
		}
	case opMul:
		if x.isConst() {
			x, y = y, x
		}
		if y.isConst() {
			if y.c == 0 {
				return y
			}
			if y.c == 1 {
				return x
			}
		}
	case opAnd:
		if x.isConst() {
			x, y = y, x
		}
		if y.isConst() {
			if y.c == 0 {
				return y
			}
			if y.c == mask(w) {
				return x
			}
		}
		if x == y {
			return x
		}
	case opOr:
		if x.isConst() {
			x, y = y, x
		}
		if y.isConst() {
			if y.c == 0 {
				return x
			}
			if y.c == mask(w) {
				return y
			}
		}
		if x == y {
			return x
		}
	case opXor:
		if x.isConst() {
			x, y = y, x
		}
		if y.isConst() && y.c == 0 {
			return x
		}
		if x == y {
			return s.Const(w, 0)
		}
	case opShl, opLShr, opAShr:
		if y.isConst() && y.c == 0 {
			return x
		}
		if y.isConst() && y.c >= uint64(w) && op != opAShr {
			return s.Const(w, 0)
		}
	}
	return s.bin(op, w, x, y)
}

// Cmp builds a comparison (result Bool).
func (s *TermStore) Cmp(op Op, x, y *Term) *Term {
	if x.w != y.w {
		panic(fmt.Sprintf("Cmp: width mismatch %d %d", x.w, y.w))
	}
	if x.isConst() && y.isConst() {
		return s.Bool(evalBin(op, x.w, x.c, y.c) != 0)
	}
	if x == y {
		switch op {
		case opEq, opULe, opSLe:
			return s.tt
		default:
			return s.ff
		}
	}
	if op == opEq {
		if x.w == 0 {
			// bool equality
			if x.isConst() {
				x, y = y, x
			}
			if y.isConst() {
				if y.c != 0 {
					return x
				}
				return s.Not(x)
			}
		}
		if x.isConst() {
			x, y = y, x
		}
		// ite(c, k1, k2) == k  with constants
		if y.isConst() && x.op == opIte && x.a[1].isConst() && x.a[2].isConst() {
			e1 := x.a[1].c == y.c
			e2 := x.a[2].c == y.c
			switch {
			case e1 && e2:
				return s.tt
			case e1:
				return x.a[0]
			case e2:
				return s.Not(x.a[0])
			default:
				return s.ff
			}
		}
		// zext(a) == k
		if y.isConst() && x.op == opZExt {
			in := x.a[0]
			if y.c > mask(in.w) {
				return s.ff
			}
			return s.Cmp(opEq, in, s.Const(in.w, y.c))
		}
		if x.id > y.id && !y.isConst() {
			x, y = y, x
		}
	}
	if (op == opULt || op == opULe) && x.op == opZExt && y.isConst() {
		in := x.a[0]
		if y.c > mask(in.w) {
			return s.tt
		}
		return s.Cmp(op, in, s.Const(in.w, y.c))
	}
	if (op == opULt || op == opULe) && y.op == opZExt && x.isConst() {
		in := y.a[0]
		if x.c > mask(in.w) {
			return s.ff
		}
		return s.Cmp(op, s.Const(in.w, x.c), in)
	}
	if (op == opSLt || op == opSLe) && x.op == opZExt && y.isConst() && x.a[0].w < x.w {
		// zext value is non-negative
		in := x.a[0]
		sy := sext64(y.c, y.w)
		if sy < 0 {
			return s.ff
		}
		if uint64(sy) > mask(in.w) {
			return s.tt
		}
		uop := opULt
		if op == opSLe {
			uop = opULe
		}
		return s.Cmp(uop, in, s.Const(in.w, uint64(sy)))
	}
	if (op == opSLt || op == opSLe) && y.op == opZExt && x.isConst() && y.a[0].w < y.w {
		in := y.a[0]
		sx := sext64(x.c, x.w)
		if sx < 0 {
			return s.tt
		}
		if uint64(sx) > mask(in.w) {
			return s.ff
		}
		uop := opULt
		if op == opSLe {
			uop = opULe
		}
		return s.Cmp(uop, s.Const(in.w, uint64(sx)), in)
	}
	return s.bin(op, 0, x, y)
}

func (s *TermStore) Not(x *Term) *Term {
	if x.isConst() {
		if x.w == 0 {
			return s.Bool(x.c == 0)
		}
		return s.Const(x.w, ^x.c)
	}
	if x.op == opNot {
		return x.a[0]
	}
	return s.un(opNot, x.w, x)
}

func (s *TermStore) Neg(x *Term) *Term {
	if x.isConst() {
		return s.Const(x.w, -x.c)
	}
	return s.un(opNeg, x.w, x)
}

func (s *TermStore) And(x, y *Term) *Term {
	if x.isConst() {
		if x.c != 0 {
			return y
		}
		return s.ff
	}
	if y.isConst() {
		if y.c != 0 {
			return x
		}
		return s.ff
	}
	if x == y {
		return x
	}
	return s.bin(opBAnd, 0, x, y)
}

func (s *TermStore) Or(x, y *Term) *Term {
	if x.isConst() {
		if x.c != 0 {
			return s.tt
		}
		return y
	}
	if y.isConst() {
		if y.c != 0 {
			return s.tt
		}
		return x
	}
	if x == y {
		return x
	}
	return s.bin(opBOr, 0, x, y)
}

func (s *TermStore) Ite(c, x, y *Term) *Term {
	if x.w != y.w {
		panic("Ite: width mismatch")
	}
	if c.isConst() {
		if c.c != 0 {
			return x
		}
		return y
	}
	if x == y {
		return x
	}
	if x.w == 0 {
		if x.isConst() && y.isConst() {
			if x.c != 0 {
				return c
			}
			return s.Not(c)
		}
		if x.isConst() {
			if x.c != 0 {
				return s.Or(c, y)
			}
			return s.And(s.Not(c), y)
		}
		if y.isConst() {
			if y.c != 0 {
				return s.Or(s.Not(c), x)
			}
			return s.And(c, x)
		}
	}
	return s.mk(Term{op: opIte, w: x.w, a: [3]*Term{c, x, y}, na: 3})
}

func (s *TermStore) Extract(x *Term, hi, lo uint8) *Term {
	w := hi - lo + 1
	if lo == 0 && w == x.w {
		return x
	}
	if x.isConst() {
		return s.Const(w, x.c>>lo)
	}
	if (x.op == opZExt || x.op == opSExt) && lo == 0 {
		in := x.a[0]
		if w == in.w {
			return in
		}
		if w < in.w {
			return s.Extract(in, hi, 0)
		}
		if x.op == opZExt {
			return s.ZExt(in, w)
		}
		return s.SExt(in, w)
	}
	if x.op == opIte && x.a[1].isConst() && x.a[2].isConst() {
		return s.Ite(x.a[0], s.Extract(x.a[1], hi, lo), s.Extract(x.a[2], hi, lo))
	}
	return s.mk(Term{op: opExtract, w: w, c: uint64(hi)<<8 | uint64(lo), a: [3]*Term{x}, na: 1})
}

func (s *TermStore) ZExt(x *Term, w uint8) *Term {
	if w == x.w {
		return x
	}
	if w < x.w {
		return s.Extract(x, w-1, 0)
	}
	if x.isConst() {
		return s.Const(w, x.c)
	}
	if x.op == opZExt {
		return s.ZExt(x.a[0], w)
	}
	if x.op == opIte && x.a[1].isConst() && x.a[2].isConst() {
		return s.Ite(x.a[0], s.ZExt(x.a[1], w), s.ZExt(x.a[2], w))
	}
	return s.un(opZExt, w, x)
}

func (s *TermStore) SExt(x *Term, w uint8) *Term {
	if w == x.w {
		return x
	}
	if w < x.w {
		return s.Extract(x, w-1, 0)
	}
	if x.isConst() {
		return s.Const(w, uint64(sext64(x.c, x.w)))
	}
	if x.op == opZExt && x.a[0].w < x.w {
		return s.ZExt(x.a[0], w)
	}
	if x.op == opIte && x.a[1].isConst() && x.a[2].isConst() {
		return s.Ite(x.a[0], s.SExt(x.a[1], w), s.SExt(x.a[2], w))
	}
	return s.un(opSExt, w, x)
}

func (s *TermStore) Concat(hi, lo *Term) *Term {
	w := hi.w + lo.w
	if hi.isConst() && lo.isConst() {
		return s.Const(w, hi.c<<lo.w|lo.c)
	}
	return s.bin(opConcat, w, hi, lo)
}

// UF builds an uninterpreted-function application returning a 64-bit vector.
func (s *TermStore) UF(name string, args []*Term) *Term {
	t := Term{op: opUF, w: 64, name: name}
	for i, a := range args {
		if i < 3 {
			t.a[i] = a
			t.na++
		} else {
			t.more = append(t.more, a)
		}
	}
	return s.mk(t)
}

func (t *Term) ufArgs() []*Term {
	r := append([]*Term(nil), t.a[:t.na]...)
	return append(r, t.more...)
}

// ---------------------------------------------------------------------
// Evaluation under the current run's model.

func (s *TermStore) NewRun(model map[uint64]uint64) {
	s.gen++
	s.model = model
	s.ufTab = map[string]uint64{}
}

func (s *TermStore) Eval(t *Term) uint64 {
	if t.op == opConst {
		return t.c
	}
	if t.evalGen == s.gen {
		return t.evalVal
	}
	var v uint64
	switch t.op {
	case opVar:
		v = s.model[t.c] & mask1(t.w)
	case opNot:
		if t.w == 0 {
			v = 1 - s.Eval(t.a[0])
		} else {
			v = ^s.Eval(t.a[0]) & mask(t.w)
		}
	case opNeg:
		v = -s.Eval(t.a[0]) & mask(t.w)
	case opExtract:
		lo := uint8(t.c & 0xff)
		v = (s.Eval(t.a[0]) >> lo) & mask(t.w)
	case opZExt:
		v = s.Eval(t.a[0])
	case opSExt:
		v = uint64(sext64(s.Eval(t.a[0]), t.a[0].w)) & mask(t.w)
	case opConcat:
		v = s.Eval(t.a[0])<<t.a[1].w | s.Eval(t.a[1])
	case opIte:
		if s.Eval(t.a[0]) != 0 {
			v = s.Eval(t.a[1])
		} else {
			v = s.Eval(t.a[2])
		}
	case opBAnd:
		if s.Eval(t.a[0]) == 0 {
			v = 0
		} else {
			v = s.Eval(t.a[1])
		}
	case opBOr:
		if s.Eval(t.a[0]) != 0 {
			v = 1
		} else {
			v = s.Eval(t.a[1])
		}
	case opUF:
		var sb strings.Builder
		sb.WriteString(t.name)
		for _, a := range t.ufArgs() {
			fmt.Fprintf(&sb, ",%d", s.Eval(a))
		}
		k := sb.String()
		if x, ok := s.ufTab[k]; ok {
			v = x
		} else {
			v = 0
			s.ufTab[k] = v
		}
	default:
		v = evalBin(t.op, t.a[0].w, s.Eval(t.a[0]), s.Eval(t.a[1]))
	}
	t.evalGen = s.gen
	t.evalVal = v
	return v
}

func mask1(w uint8) uint64 {
	if w == 0 {
		return 1
	}
	return mask(w)
}

// ---------------------------------------------------------------------
// SMT-LIB2 serialisation.

func sortStr(w uint8) string {
	if w == 0 {
		return "Bool"
	}
	return fmt.Sprintf("(_ BitVec %d)", w)
}

func varName(t *Term) string {
	if t.w == 0 {
		return fmt.Sprintf("v%d_b", t.c)
	}
	return fmt.Sprintf("v%d_%d", t.c, t.w)
}

func constStr(w uint8, c uint64) string {
	if w == 0 {
		if c != 0 {
			return "true"
		}
		return "false"
	}
	if w%4 == 0 {
		return fmt.Sprintf("#x%0*x", int(w/4), c)
	}
	return fmt.Sprintf("#b%0*b", int(w), c)
}

// smtWriter serialises terms, let-binding shared sub-terms.
type smtWriter struct {
	refs  map[*Term]int
	names map[*Term]string
	order []*Term
	vars  map[*Term]bool
	ufs   map[string]int // name -> arity
}

func (sw *smtWriter) count(t *Term) {
	if t.op == opConst {
		return
	}
	if t.op == opVar {
		sw.vars[t] = true
		return
	}
	sw.refs[t]++
	if sw.refs[t] > 1 {
		return
	}
	if t.op == opUF {
		args := t.ufArgs()
		sw.ufs[t.name] = len(args)
		for _, a := range args {
			sw.count(a)
		}
	} else {
		for i := 0; i < int(t.na); i++ {
			sw.count(t.a[i])
		}
	}
	sw.order = append(sw.order, t) // post-order
}

func (sw *smtWriter) expr(t *Term, top bool) string {
	if t.op == opConst {
		return constStr(t.w, t.c)
	}
	if t.op == opVar {
		return varName(t)
	}
	if !top {
		if n, ok := sw.names[t]; ok {
			return n
		}
	}
	var sb strings.Builder
	switch t.op {
	case opExtract:
		fmt.Fprintf(&sb, "((_ extract %d %d) %s)", t.c>>8, t.c&0xff, sw.expr(t.a[0], false))
	case opZExt:
		fmt.Fprintf(&sb, "((_ zero_extend %d) %s)", t.w-t.a[0].w, sw.expr(t.a[0], false))
	case opSExt:
		fmt.Fprintf(&sb, "((_ sign_extend %d) %s)", t.w-t.a[0].w, sw.expr(t.a[0], false))
	case opNot:
		if t.w == 0 {
			fmt.Fprintf(&sb, "(not %s)", sw.expr(t.a[0], false))
		} else {
			fmt.Fprintf(&sb, "(bvnot %s)", sw.expr(t.a[0], false))
		}
	case opUF:
		fmt.Fprintf(&sb, "(uf_%s", t.name)
		for _, a := range t.ufArgs() {
			sb.WriteByte(' ')
			sb.WriteString(sw.expr(a, false))
		}
		sb.WriteByte(')')
	default:
		sb.WriteByte('(')
		sb.WriteString(opNames[t.op])
		for i := 0; i < int(t.na); i++ {
			sb.WriteByte(' ')
			sb.WriteString(sw.expr(t.a[i], false))
		}
		sb.WriteByte(')')
	}
	return sb.String()
}

// Serialize returns the SMT-LIB2 text of a Bool/BV term and the set of
// variables and UFs it mentions.
func Serialize(t *Term) (string, map[*Term]bool, map[string]int) {
	sw := &smtWriter{refs: map[*Term]int{}, names: map[*Term]string{}, vars: map[*Term]bool{}, ufs: map[string]int{}}
	sw.count(t)
	var sb strings.Builder
	nlet := 0
	for _, n := range sw.order {
		if n != t && sw.refs[n] > 1 {
			e := sw.expr(n, true)
			name := fmt.Sprintf("?t%d", n.id)
			sw.names[n] = name
			fmt.Fprintf(&sb, "(let ((%s %s)) ", name, e)
			nlet++
		}
	}
	sb.WriteString(sw.expr(t, true))
	for i := 0; i < nlet; i++ {
		sb.WriteByte(')')
	}
	return sb.String(), sw.vars, sw.ufs
}

func (t *Term) String() string {
	s, _, _ := Serialize(t)
	if len(s) > 400 {
		return s[:400] + "..."
	}
	return s
}

var _ = bits.Len
