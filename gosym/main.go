package main

import (
	"encoding/json"
	"flag"
	"fmt"
	"os"
	"runtime"
	"strconv"
	"strings"
	"time"

	"golang.org/x/tools/go/ssa"
)

func main() {
	if len(os.Args) < 2 {
		fmt.Fprintln(os.Stderr, "usage: gosym run|check ...")
		os.Exit(2)
	}
	switch os.Args[1] {
	case "run":
		os.Exit(cmdRun(os.Args[2:]))
	case "check":
		os.Exit(cmdCheck(os.Args[2:]))
	default:
		fmt.Fprintln(os.Stderr, "unknown command", os.Args[1])
		os.Exit(2)
	}
}

func parseParams(s string) map[string]int {
	m := map[string]int{}
	for _, kv := range strings.Split(s, ",") {
		if kv == "" {
			continue
		}
		p := strings.SplitN(kv, "=", 2)
		if len(p) == 2 {
			n, _ := strconv.Atoi(p[1])
			m[p[0]] = n
		}
	}
	return m
}

// cmdRun: development entry point: explore one harness and dump statistics.
func cmdRun(args []string) int {
	fs := flag.NewFlagSet("run", flag.ExitOnError)
	pkg := fs.String("pkg", "", "import path of the package under test")
	files := fs.String("files", "", "comma-separated harness files under /verif/harness")
	fn := fs.String("fn", "", "harness function")
	params := fs.String("params", "", "N=3,K=2")
	workers := fs.Int("workers", runtime.NumCPU(), "workers")
	maxSteps := fs.Int64("maxsteps", 20_000_000, "instruction budget per path")
	maxPaths := fs.Int64("maxpaths", 0, "stop after this many paths")
	trace := fs.Bool("trace", false, "trace instructions")
	panicV := fs.Bool("panic-violation", true, "uncaught panic is a violation")
	goroutines := fs.Bool("goroutines", false, "goroutine mode")
	overrides := fs.String("override", "", "target=harnessFunc,...")
	extdir := fs.String("extdir", "", "load the harness package from this generated directory")
	fs.Parse(args)
	t0 := time.Now()
	var ld *loaded
	var err error
	if *extdir != "" {
		ld, err = loadProgramAt(*extdir, ".", nil)
	} else {
		var ov map[string][]byte
		ov, _, err = harnessOverlay(*pkg, strings.Split(*files, ","))
		if err != nil {
			fmt.Fprintln(os.Stderr, err)
			return 2
		}
		ld, err = loadProgram(*pkg, ov)
	}
	if err != nil {
		fmt.Fprintln(os.Stderr, err)
		return 2
	}
	fmt.Fprintf(os.Stderr, "loaded in %.1fs\n", time.Since(t0).Seconds())
	f := ld.pkg.Func(*fn)
	if f == nil {
		fmt.Fprintln(os.Stderr, "no function", *fn)
		return 2
	}
	var setup func(i *interpreter)
	if *overrides != "" {
		ovs := map[string]string{}
		for _, kv := range strings.Split(*overrides, ",") {
			p := strings.SplitN(kv, "=", 2)
			if len(p) == 2 {
				ovs[p[0]] = p[1]
			}
		}
		setup = func(i *interpreter) {
			i.overrides = map[string]*ssa.Function{}
			for target, repl := range ovs {
				g := ld.pkg.Func(repl)
				if g == nil {
					panic("override function not found: " + repl)
				}
				i.overrides[target] = g
			}
		}
	}
	ex := NewExplorer(ld.prog, ExploreConfig{Harness: *fn, Pkg: ld.pkg, Fn: f, Params: parseParams(*params), Workers: *workers,
		MaxSteps: *maxSteps, MaxPaths: *maxPaths, Trace: *trace, PanicIsViolation: *panicV, Goroutine: *goroutines, Setup: setup})
	if err := ex.Run(); err != nil {
		fmt.Fprintln(os.Stderr, err)
		return 2
	}
	out := ex.summary()
	b, _ := json.MarshalIndent(out, "", " ")
	fmt.Println(string(b))
	fmt.Fprintf(os.Stderr, "total %.1fs\n", time.Since(t0).Seconds())
	if len(ex.violations) > 0 {
		return 1
	}
	return 0
}

func (ex *Explorer) summary() map[string]any {
	return map[string]any{
		"harness": ex.cfg.Harness, "params": ex.cfg.Params,
		"paths": ex.paths, "forks": ex.forks, "obligations": ex.obligations, "trivial_obligations": ex.trivialObl,
		"violations": ex.violations, "inconclusive": ex.inconclusive, "unsupported": ex.unsupported,
		"reach": ex.reach, "instructions": ex.steps, "solver_queries": ex.queries, "solver_errors": ex.solverErrs,
		"solver_wall_s": ex.solverWall.Seconds(), "wall_s": time.Since(ex.startT).Seconds(), "max_decisions": ex.maxDecisions,
		"functions_top": ex.topFunctions(25), "functions_executed": len(ex.fnCount), "samples": ex.samples,
		"init_failures": ex.initFail, "truncated": ex.truncated,
	}
}

