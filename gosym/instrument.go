package main

// Source instrumentation for the goroutine-mode checks ("gen:instrument" in a
// harness's file list). Every non-test file of the package under test and every
// harness file is rewritten - in the overlay only, /repo is not touched - so that
//
//	a statement containing a synchronisation operation (Lock, Unlock, RLock,
//	RUnlock, Wait, Signal, Broadcast, channel send/receive, close, select) is
//	preceded by a call of vxSchedPoint(), and a possibly blocking one (Lock, RLock, Wait,
//	channel operations, each select case) is followed by a call of vxSchedAfter();
//	`go f(x)` becomes `vxGo(func() { f(x) })` (arguments evaluated first);
//	`defer m.Unlock()` becomes `defer func() { vxSchedPoint(); m.Unlock() }()`.
//
// The symbolic executor and the native replay run the SAME instrumented text.
// The executor only numbers the points per goroutine and logs the order in which
// the operations behind them take effect; the native runtime (vx_rt) makes each
// goroutine wait at a point until the logged order says it is its turn, which is
// how a schedule found by the solver is reproduced under the real Go scheduler.

import (
	"bytes"
	"fmt"
	"go/ast"
	"go/parser"
	"go/printer"
	"go/token"
)

var syncMethodNames = map[string]bool{
	"Lock": true, "Unlock": true, "RLock": true, "RUnlock": true,
	"Wait": true, "Signal": true, "Broadcast": true,
}

func isSyncCall(c *ast.CallExpr) bool {
	switch f := c.Fun.(type) {
	case *ast.SelectorExpr:
		return syncMethodNames[f.Sel.Name]
	case *ast.Ident:
		return f.Name == "close" && len(c.Args) == 1
	}
	return false
}

// exprHasOp: n contains a synchronisation operation outside function literals.
func exprHasOp(n ast.Node) bool {
	if n == nil {
		return false
	}
	found := false
	ast.Inspect(n, func(x ast.Node) bool {
		if found {
			return false
		}
		switch x := x.(type) {
		case *ast.FuncLit:
			return false
		case *ast.UnaryExpr:
			if x.Op == token.ARROW {
				found = true
			}
		case *ast.SendStmt:
			found = true
		case *ast.CallExpr:
			if isSyncCall(x) {
				found = true
			}
		}
		return !found
	})
	return found
}

func nodeOrNil(e ast.Expr) ast.Node {
	if e == nil {
		return nil
	}
	return e
}

func stmtOrNil(s ast.Stmt) ast.Node {
	if s == nil {
		return nil
	}
	return s
}

// stmtHasOp: the part of s that is evaluated when control reaches s (not its nested blocks).
func stmtHasOp(s ast.Stmt) bool {
	switch s := s.(type) {
	case *ast.ExprStmt, *ast.AssignStmt, *ast.SendStmt, *ast.ReturnStmt, *ast.IncDecStmt, *ast.DeclStmt:
		return exprHasOp(s)
	case *ast.IfStmt:
		return exprHasOp(stmtOrNil(s.Init)) || exprHasOp(nodeOrNil(s.Cond))
	case *ast.ForStmt:
		return exprHasOp(stmtOrNil(s.Init))
	case *ast.SwitchStmt:
		return exprHasOp(stmtOrNil(s.Init)) || exprHasOp(nodeOrNil(s.Tag))
	case *ast.TypeSwitchStmt:
		return exprHasOp(stmtOrNil(s.Init)) || exprHasOp(stmtOrNil(s.Assign))
	case *ast.RangeStmt:
		return exprHasOp(nodeOrNil(s.X))
	case *ast.SelectStmt:
		return true
	}
	return false
}

var blockingMethodNames = map[string]bool{"Lock": true, "RLock": true, "Wait": true}

// exprMayBlock: n contains an operation after which the goroutine may have been asleep
// (Lock, RLock, Wait, channel send or receive) outside function literals.
func exprMayBlock(n ast.Node) bool {
	found := false
	ast.Inspect(n, func(x ast.Node) bool {
		if found {
			return false
		}
		switch x := x.(type) {
		case *ast.FuncLit:
			return false
		case *ast.UnaryExpr:
			if x.Op == token.ARROW {
				found = true
			}
		case *ast.SendStmt:
			found = true
		case *ast.CallExpr:
			if f, ok := x.Fun.(*ast.SelectorExpr); ok && blockingMethodNames[f.Sel.Name] {
				found = true
			}
		}
		return !found
	})
	return found
}

func afterCall() ast.Stmt {
	return &ast.ExprStmt{X: &ast.CallExpr{Fun: ast.NewIdent("vxSchedAfter")}}
}

func pointCall() ast.Stmt {
	return &ast.ExprStmt{X: &ast.CallExpr{Fun: ast.NewIdent("vxSchedPoint")}}
}

type instrumenter struct {
	skip map[*ast.BlockStmt]bool
	ntmp int
	n    int
}

func (in *instrumenter) goStmt(g *ast.GoStmt) ast.Stmt {
	call := g.Call
	var lhs, rhs []ast.Expr
	newArgs := make([]ast.Expr, len(call.Args))
	for k, a := range call.Args {
		switch a.(type) {
		case *ast.BasicLit, *ast.FuncLit:
			newArgs[k] = a
			continue
		}
		in.ntmp++
		id := ast.NewIdent(fmt.Sprintf("vxGoArg%d", in.ntmp))
		lhs = append(lhs, id)
		rhs = append(rhs, a)
		newArgs[k] = ast.NewIdent(id.Name)
	}
	inner := &ast.CallExpr{Fun: call.Fun, Args: newArgs, Ellipsis: call.Ellipsis}
	if _, isLit := call.Fun.(*ast.FuncLit); isLit {
		inner.Fun = &ast.ParenExpr{X: call.Fun}
	}
	body := &ast.BlockStmt{List: []ast.Stmt{&ast.ExprStmt{X: inner}}}
	spawn := &ast.ExprStmt{X: &ast.CallExpr{Fun: ast.NewIdent("vxGo"), Args: []ast.Expr{
		&ast.FuncLit{Type: &ast.FuncType{Params: &ast.FieldList{}}, Body: body}}}}
	in.n++
	if len(lhs) == 0 {
		return spawn
	}
	blk := &ast.BlockStmt{List: []ast.Stmt{&ast.AssignStmt{Lhs: lhs, Tok: token.DEFINE, Rhs: rhs}, spawn}}
	in.skip[blk] = true
	return blk
}

func (in *instrumenter) list(l []ast.Stmt) []ast.Stmt {
	var out []ast.Stmt
	for _, s := range l {
		switch st := s.(type) {
		case *ast.GoStmt:
			out = append(out, in.goStmt(st))
			continue
		case *ast.DeferStmt:
			if isSyncCall(st.Call) {
				body := &ast.BlockStmt{List: []ast.Stmt{pointCall(), &ast.ExprStmt{X: st.Call}}}
				in.skip[body] = true
				out = append(out, &ast.DeferStmt{Call: &ast.CallExpr{Fun: &ast.FuncLit{Type: &ast.FuncType{Params: &ast.FieldList{}}, Body: body}}})
				in.n++
				continue
			}
		}
		if stmtHasOp(s) {
			out = append(out, pointCall())
			in.n++
		}
		out = append(out, s)
		switch s.(type) {
		case *ast.ExprStmt, *ast.AssignStmt, *ast.SendStmt, *ast.IncDecStmt, *ast.DeclStmt:
			// resume point: what follows a possibly blocking operation runs only when the schedule says so
			if exprMayBlock(s) {
				out = append(out, afterCall())
			}
		}
	}
	return out
}

// instrumentSource returns the instrumented text of a Go file (and whether anything was inserted).
func instrumentSource(filename string, src []byte) ([]byte, bool, error) {
	fset := token.NewFileSet()
	f, err := parser.ParseFile(fset, filename, src, parser.ParseComments)
	if err != nil {
		return nil, false, err
	}
	// keep only the comments in front of the package clause (build constraints); the others could be
	// misplaced by the printer once statements without positions are inserted
	var keep []*ast.CommentGroup
	for _, cg := range f.Comments {
		if cg.End() < f.Package {
			keep = append(keep, cg)
		}
	}
	f.Comments = keep
	in := &instrumenter{skip: map[*ast.BlockStmt]bool{}}
	ast.Inspect(f, func(n ast.Node) bool {
		switch n := n.(type) {
		case *ast.BlockStmt:
			if !in.skip[n] {
				n.List = in.list(n.List)
			}
		case *ast.CaseClause:
			n.Body = in.list(n.Body)
		case *ast.CommClause:
			n.Body = append([]ast.Stmt{afterCall()}, in.list(n.Body)...)
		case *ast.Field, *ast.GenDecl:
			_ = n
		}
		return true
	})
	if in.n == 0 {
		return src, false, nil
	}
	// drop doc comments that the printer would otherwise try to place
	ast.Inspect(f, func(n ast.Node) bool {
		switch n := n.(type) {
		case *ast.FuncDecl:
			n.Doc = nil
		case *ast.GenDecl:
			n.Doc = nil
		case *ast.TypeSpec:
			n.Doc, n.Comment = nil, nil
		case *ast.ValueSpec:
			n.Doc, n.Comment = nil, nil
		case *ast.Field:
			n.Doc, n.Comment = nil, nil
		case *ast.ImportSpec:
			n.Doc, n.Comment = nil, nil
		}
		return true
	})
	var buf bytes.Buffer
	if err := printer.Fprint(&buf, fset, f); err != nil {
		return nil, false, err
	}
	return buf.Bytes(), true, nil
}
