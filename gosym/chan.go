package main

// Channels and goroutines. In sequential mode a channel is a queue and
// an operation that would block ends the path as unsupported. In
// goroutine mode (scheduler.go) blocking operations yield to the
// symbolic scheduler.

import (
	"fmt"
	"go/types"

	"golang.org/x/tools/go/ssa"
)

type gchan struct {
	buf    []value
	cap    int
	closed bool
	elem   types.Type
	id     int
	// rendezvous support (goroutine mode)
	sendq []*waiter
	recvq []*waiter
	recvWaiting int
	offers      []*offer // parked operations of goroutine mode
}

type waiter struct {
	g    *goroutine
	val  value // value being sent / received
	ok   bool
	done bool
	sel  int // select case index (or -1)
}

func (c *gchan) length() int {
	if c == nil {
		return 0
	}
	return len(c.buf)
}
func (c *gchan) capacity() int {
	if c == nil {
		return 0
	}
	return c.cap
}

func (i *interpreter) makeChan(size int, elem types.Type) *gchan {
	c := &gchan{cap: size, elem: elem}
	if i.sched != nil {
		i.sched.nchan++
		c.id = i.sched.nchan
	}
	return c
}

func (i *interpreter) chanSend(fr *frame, ch value, v value) {
	c := ch.(*gchan)
	if i.sched != nil {
		i.sched.send(fr, c, v)
		return
	}
	if c == nil {
		i.unsupported("send on nil channel blocks forever (sequential mode)")
	}
	if c.closed {
		panic(targetPanic{iface{i.runtimeErrorString, "send on closed channel"}})
	}
	if len(c.buf) < c.cap {
		c.buf = append(c.buf, v)
		return
	}
	i.unsupported("channel send would block (sequential mode)")
}

func (i *interpreter) chanRecv(fr *frame, instr *ssa.UnOp, ch value) value {
	c := ch.(*gchan)
	var v value
	var ok bool
	if i.sched != nil {
		v, ok = i.sched.recv(fr, c)
	} else {
		if c == nil {
			i.unsupported("receive on nil channel blocks forever (sequential mode)")
		}
		if len(c.buf) > 0 {
			v, ok = c.buf[0], true
			c.buf = c.buf[1:]
		} else if c.closed {
			ok = false
		} else {
			i.unsupported("channel receive would block (sequential mode)")
		}
	}
	if !ok {
		v = zero(instr.X.Type().Underlying().(*types.Chan).Elem())
	}
	if instr.CommaOk {
		return tuple{v, ok}
	}
	return v
}

func (i *interpreter) chanClose(fr *frame, ch value) {
	c := ch.(*gchan)
	if c == nil {
		panic(targetPanic{iface{i.runtimeErrorString, "close of nil channel"}})
	}
	if i.sched != nil {
		i.sched.closeChan(fr, c)
		return
	}
	if c.closed {
		panic(targetPanic{iface{i.runtimeErrorString, "close of closed channel"}})
	}
	c.closed = true
}

func (i *interpreter) goStmt(fr *frame, instr *ssa.Go, fn value, args []value) {
	if i.sched == nil {
		i.unsupported("go statement (sequential mode) at %s", i.prog.Fset.Position(instr.Pos()))
	}
	i.sched.spawn(fr, fn, args)
}

func (i *interpreter) selectStmt(fr *frame, instr *ssa.Select) value {
	if i.sched != nil {
		return i.sched.selectStmt(fr, instr)
	}
	// sequential: pick the first ready case
	for k, st := range instr.States {
		c := fr.get(st.Chan).(*gchan)
		if c == nil {
			continue
		}
		if st.Dir == types.RecvOnly {
			if len(c.buf) > 0 || c.closed {
				r := tuple{k, false}
				for j, st2 := range instr.States {
					if st2.Dir == types.RecvOnly {
						if j == k && len(c.buf) > 0 {
							r[1] = true
							r = append(r, c.buf[0])
							c.buf = c.buf[1:]
						} else {
							r = append(r, zero(st2.Chan.Type().Underlying().(*types.Chan).Elem()))
						}
					}
				}
				return r
			}
		} else {
			if c.closed {
				panic(targetPanic{iface{i.runtimeErrorString, "send on closed channel"}})
			}
			if len(c.buf) < c.cap {
				c.buf = append(c.buf, fr.get(st.Send))
				r := tuple{k, false}
				for _, st2 := range instr.States {
					if st2.Dir == types.RecvOnly {
						r = append(r, zero(st2.Chan.Type().Underlying().(*types.Chan).Elem()))
					}
				}
				return r
			}
		}
	}
	if !instr.Blocking {
		r := tuple{-1, false}
		for _, st2 := range instr.States {
			if st2.Dir == types.RecvOnly {
				r = append(r, zero(st2.Chan.Type().Underlying().(*types.Chan).Elem()))
			}
		}
		return r
	}
	i.unsupported("select would block (sequential mode)")
	return nil
}

var _ = fmt.Sprint
