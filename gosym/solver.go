package main

// A long-lived SMT solver process driven over stdin/stdout with SMT-LIB2.

import (
	"bufio"
	"fmt"
	"io"
	"os"
	"os/exec"
	"strconv"
	"strings"
	"time"
)

type Verdict int

const (
	Unsat Verdict = iota
	Sat
	Unknown
)

func (v Verdict) String() string { return [...]string{"unsat", "sat", "unknown"}[v] }

type Solver struct {
	name    string
	cmd     *exec.Cmd
	in      io.WriteCloser
	out     *bufio.Reader
	decl    map[string]bool // declared symbols in the current run scope
	sent    int             // number of PC conjuncts already asserted in run scope
	inRun   bool
	queries int
	errs    int
	wall    time.Duration
	logf    *os.File
	dead    bool
}

var solverTimeoutMs = 60000

func solverArgv(name string) []string {
	switch name {
	case "z3":
		return []string{"z3", "-in"}
	case "z3-new":
		return []string{"z3-new", "-in"}
	case "cvc5":
		return []string{"cvc5", "--incremental", "--lang=smt2", "--produce-models", fmt.Sprintf("--tlimit-per=%d", solverTimeoutMs)}
	}
	return []string{name, "-in"}
}

func NewSolver(name string) (*Solver, error) {
	argv := solverArgv(name)
	cmd := exec.Command(argv[0], argv[1:]...)
	in, err := cmd.StdinPipe()
	if err != nil {
		return nil, err
	}
	outp, err := cmd.StdoutPipe()
	if err != nil {
		return nil, err
	}
	cmd.Stderr = cmd.Stdout
	if err := cmd.Start(); err != nil {
		return nil, err
	}
	s := &Solver{name: name, cmd: cmd, in: in, out: bufio.NewReaderSize(outp, 1<<16), decl: map[string]bool{}}
	if p := os.Getenv("GOSYM_SMTLOG"); p != "" {
		s.logf, _ = os.OpenFile(p, os.O_CREATE|os.O_WRONLY|os.O_APPEND, 0644)
	}
	if strings.HasPrefix(name, "z3") {
		s.send(fmt.Sprintf("(set-option :timeout %d)\n", solverTimeoutMs))
	} else {
		s.send("(set-logic ALL)\n")
	}
	s.send("(set-option :produce-models true)\n")
	return s, nil
}

func (s *Solver) send(txt string) {
	if s.logf != nil {
		s.logf.WriteString(txt)
	}
	if _, err := io.WriteString(s.in, txt); err != nil {
		s.dead = true
	}
}

func (s *Solver) Close() {
	if s == nil {
		return
	}
	s.in.Close()
	done := make(chan struct{})
	go func() { s.cmd.Wait(); close(done) }()
	select {
	case <-done:
	case <-time.After(2 * time.Second):
		s.cmd.Process.Kill()
	}
}

// readSexp reads one line-or-balanced s-expression answer.
func (s *Solver) readAnswer() string {
	var sb strings.Builder
	depth := 0
	started := false
	for {
		line, err := s.out.ReadString('\n')
		if err != nil {
			s.dead = true
			return sb.String() + "(error \"solver died\")"
		}
		if !started && strings.TrimSpace(line) == "" {
			continue
		}
		started = true
		sb.WriteString(line)
		inStr := false
		for _, c := range line {
			switch {
			case c == '"':
				inStr = !inStr
			case inStr:
			case c == '(':
				depth++
			case c == ')':
				depth--
			}
		}
		if depth <= 0 {
			return sb.String()
		}
	}
}

// BeginRun opens a scope for one path run.
func (s *Solver) BeginRun() {
	if s.inRun {
		s.EndRun()
	}
	s.send("(push 1)\n")
	s.inRun = true
	s.sent = 0
	s.decl = map[string]bool{}
}

func (s *Solver) EndRun() {
	if s.inRun {
		s.send("(pop 1)\n")
		s.inRun = false
	}
}

func (s *Solver) declare(vars map[*Term]bool, ufs map[string]int, sb *strings.Builder) {
	for v := range vars {
		n := varName(v)
		if !s.decl[n] {
			s.decl[n] = true
			fmt.Fprintf(sb, "(declare-const %s %s)\n", n, sortStr(v.w))
		}
	}
	for name, ar := range ufs {
		n := "uf_" + name
		if !s.decl[n] {
			s.decl[n] = true
			fmt.Fprintf(sb, "(declare-fun %s (%s) (_ BitVec 64))\n", n, strings.TrimSpace(strings.Repeat("(_ BitVec 64) ", ar)))
		}
	}
}

// Check decides sat(pc ∧ extra...). pc is the run's growing path
// condition (only the not-yet-sent suffix is transmitted). On Sat the
// model for wantVars is returned.
func (s *Solver) Check(pc []*Term, extra []*Term, wantVars []*Term) (Verdict, map[uint64]uint64) {
	t0 := time.Now()
	defer func() { s.wall += time.Since(t0); s.queries++ }()
	if s.dead {
		return Unknown, nil
	}
	var sb strings.Builder
	for ; s.sent < len(pc); s.sent++ {
		txt, vars, ufs := Serialize(pc[s.sent])
		s.declare(vars, ufs, &sb)
		fmt.Fprintf(&sb, "(assert %s)\n", txt)
	}
	// declarations must live in the run scope, so emit them before the inner push
	var body strings.Builder
	for _, e := range extra {
		txt, vars, ufs := Serialize(e)
		s.declare(vars, ufs, &sb)
		fmt.Fprintf(&body, "(assert %s)\n", txt)
	}
	wv := map[*Term]bool{}
	for _, v := range wantVars {
		wv[v] = true
	}
	s.declare(wv, nil, &sb)
	sb.WriteString("(push 1)\n")
	sb.WriteString(body.String())
	sb.WriteString("(check-sat)\n")
	s.send(sb.String())
	ans := strings.TrimSpace(s.readAnswer())
	var verdict Verdict
	switch {
	case strings.Contains(ans, "(error"):
		s.errs++
		verdict = Unknown
		if os.Getenv("GOSYM_DEBUG") != "" {
			fmt.Fprintf(os.Stderr, "solver error: %s\n", ans)
		}
	case ans == "sat":
		verdict = Sat
	case ans == "unsat":
		verdict = Unsat
	default:
		verdict = Unknown
	}
	var model map[uint64]uint64
	if verdict == Sat {
		model = map[uint64]uint64{}
		if len(wantVars) > 0 {
			var q strings.Builder
			q.WriteString("(get-value (")
			for _, v := range wantVars {
				q.WriteString(varName(v))
				q.WriteByte(' ')
			}
			q.WriteString("))\n")
			s.send(q.String())
			mans := s.readAnswer()
			if strings.Contains(mans, "(error") {
				s.errs++
				verdict = Unknown
			} else {
				parseModel(mans, model)
			}
		}
	}
	s.send("(pop 1)\n")
	return verdict, model
}

// parseModel parses ((v3_8 #x41) (v4_b true) ...).
func parseModel(ans string, model map[uint64]uint64) {
	toks := strings.FieldsFunc(ans, func(r rune) bool { return r == '(' || r == ')' || r == ' ' || r == '\n' || r == '\t' || r == '\r' })
	for i := 0; i+1 < len(toks); i += 2 {
		name, val := toks[i], toks[i+1]
		if !strings.HasPrefix(name, "v") {
			i--
			continue
		}
		us := strings.IndexByte(name, '_')
		if us < 0 {
			continue
		}
		id, err := strconv.ParseUint(name[1:us], 10, 64)
		if err != nil {
			continue
		}
		var v uint64
		switch {
		case val == "true":
			v = 1
		case val == "false":
			v = 0
		case strings.HasPrefix(val, "#x"):
			v, _ = strconv.ParseUint(val[2:], 16, 64)
		case strings.HasPrefix(val, "#b"):
			v, _ = strconv.ParseUint(val[2:], 2, 64)
		case val == "_":
			// (_ bv10 32) form: tokens: _ bv10 32
			if i+3 < len(toks) && strings.HasPrefix(toks[i+2], "bv") {
				v, _ = strconv.ParseUint(toks[i+2][2:], 10, 64)
				i += 2
			}
		}
		model[id] = v
	}
}

// OneShot runs an independent solver process on a full script (used for
// cross-checking final obligations with other solvers).
func OneShot(name string, script string, timeout time.Duration) Verdict {
	argv := solverArgv(name)
	cmd := exec.Command(argv[0], argv[1:]...)
	cmd.Stdin = strings.NewReader(script)
	done := make(chan struct{})
	var out []byte
	go func() { out, _ = cmd.CombinedOutput(); close(done) }()
	select {
	case <-done:
	case <-time.After(timeout):
		if cmd.Process != nil {
			cmd.Process.Kill()
		}
		<-done
		return Unknown
	}
	o := string(out)
	if strings.Contains(o, "(error") {
		return Unknown
	}
	lines := strings.Fields(o)
	for _, l := range lines {
		switch l {
		case "sat":
			return Sat
		case "unsat":
			return Unsat
		}
	}
	return Unknown
}
