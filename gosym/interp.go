// Copyright 2013 The Go Authors. All rights reserved.
// Use of this source code is governed by a BSD-style
// license that can be found in the LICENSE file.

// This file derives from golang.org/x/tools/go/ssa/interp (v0.29.0): the
// instruction-by-instruction skeleton is kept, scalars may be SMT terms
// (*Term), strings may carry symbolic bytes (sstring), branches on
// symbolic conditions are decision points of the explorer, run-time
// panics are raised explicitly as target panics, and stores are logged
// so that a worker can undo a path's effects on shared (init-time) memory.

package main

import (
	"fmt"
	"go/token"
	"go/types"
	"os"
	"runtime"
	"slices"
	"strings"
	"time"

	"golang.org/x/tools/go/ssa"
)

type continuation int

const (
	kNext continuation = iota
	kReturn
	kJump
)

type methodSet map[string]*ssa.Function

type undoRec struct {
	addr *value
	old  value
}

// State of one worker's interpreter.
type interpreter struct {
	prog               *ssa.Program
	globals            map[*ssa.Global]*value
	runtimeErrorString types.Type
	sizes              types.Sizes

	ts       *TermStore
	run      *pathRun // current path run (nil during init)
	undo     []undoRec
	undoMaps []mapSnap
	runGen   uint32
	trace    bool
	initDone map[*ssa.Package]bool
	initFail map[*ssa.Package]string
	fnCount  map[*ssa.Function]int64 // instructions executed per function (coverage evidence)
	depth    int
	overrides map[string]*ssa.Function
	initSteps int64
	rawInit  *ssa.Function
	wantInit map[string]bool
	sched    *scheduler // goroutine mode (nil = sequential)
	lastSchedule string // schedule of the goroutine-mode run that just ended
	fs       *fsModel
	userData map[string]any
}

type deferred struct {
	fn    value
	args  []value
	instr *ssa.Defer
	tail  *deferred
}

type frame struct {
	i                *interpreter
	caller           *frame
	fn               *ssa.Function
	block, prevBlock *ssa.BasicBlock
	env              map[ssa.Value]value // dynamic values of SSA variables
	locals           []value
	defers           *deferred
	result           value
	panicking        bool
	panic            interface{}
	phitemps         []value // temporaries for parallel phi assignment
	g                *goroutine
}

func (fr *frame) get(key ssa.Value) value {
	switch key := key.(type) {
	case nil:
		return nil
	case *ssa.Function, *ssa.Builtin:
		return key
	case *ssa.Const:
		return constValue(key)
	case *ssa.Global:
		if r, ok := fr.i.globals[key]; ok {
			return r
		}
		// global of a package whose storage was not created (should not happen)
		cell := zero(deref(key.Type()))
		fr.i.globals[key] = &cell
		return &cell
	}
	if r, ok := fr.env[key]; ok {
		return r
	}
	panic(fmt.Sprintf("get: no value for %T: %v", key, key.Name()))
}

func deref(t types.Type) types.Type {
	if p, ok := t.Underlying().(*types.Pointer); ok {
		return p.Elem()
	}
	panic("deref: not a pointer: " + t.String())
}

// pathEnd is the sentinel the engine panics with to end a path run.
type pathEnd struct {
	kind string // "assume-false", "unsupported", "budget", "violation", "exit", "done"
	msg  string
}

// runDefer runs a deferred call d.
func (fr *frame) runDefer(d *deferred) {
	var ok bool
	defer func() {
		if !ok {
			p := recover()
			if pe, isEnd := p.(pathEnd); isEnd {
				panic(pe)
			}
			fr.panicking = true
			fr.panic = p
		}
	}()
	call(fr.i, fr, d.instr.Pos(), d.fn, d.args)
	ok = true
}

func (fr *frame) runDefers() {
	for d := fr.defers; d != nil; d = d.tail {
		fr.runDefer(d)
	}
	fr.defers = nil
	if fr.panicking {
		panic(fr.panic) // new panic, or still panicking
	}
}

func lookupMethod(i *interpreter, typ types.Type, meth *types.Func) *ssa.Function {
	return i.prog.LookupMethod(typ, meth.Pkg(), meth.Name())
}

// rtPanic raises a Go run-time panic in the target program.
func (i *interpreter) rtPanic(msg string) {
	panic(targetPanic{iface{i.runtimeErrorString, "runtime error: " + msg}})
}

func (i *interpreter) unsupported(format string, args ...any) {
	panic(pathEnd{kind: "unsupported", msg: fmt.Sprintf(format, args...)})
}

func (i *interpreter) logStore(addr *value) {
	if i.run != nil {
		i.undo = append(i.undo, undoRec{addr, *addr})
	}
}

// derefPtr checks a pointer operand for nil.
func (i *interpreter) derefPtr(p value) *value {
	switch p := p.(type) {
	case *value:
		if p == nil {
			i.rtPanic("invalid memory address or nil pointer dereference")
		}
		return p
	}
	panic(fmt.Sprintf("derefPtr: unexpected pointer representation %T", p))
}

// visitInstr interprets a single ssa.Instruction within the activation
// record frame.
func visitInstr(fr *frame, instr ssa.Instruction) continuation {
	i := fr.i
	switch instr := instr.(type) {
	case *ssa.DebugRef:
		// no-op

	case *ssa.UnOp:
		fr.env[instr] = i.unop(fr, instr, fr.get(instr.X))

	case *ssa.BinOp:
		fr.env[instr] = i.binop(instr.Op, instr.X.Type(), instr.Y.Type(), fr.get(instr.X), fr.get(instr.Y))

	case *ssa.Call:
		fn, args := prepareCall(fr, &instr.Call)
		fr.env[instr] = call(fr.i, fr, instr.Pos(), fn, args)

	case *ssa.ChangeInterface:
		fr.env[instr] = fr.get(instr.X)

	case *ssa.ChangeType:
		fr.env[instr] = fr.get(instr.X) // (can't fail)

	case *ssa.Convert:
		fr.env[instr] = i.conv(instr.Type(), instr.X.Type(), fr.get(instr.X))

	case *ssa.SliceToArrayPointer:
		fr.env[instr] = sliceToArrayPointer(instr.Type(), instr.X.Type(), fr.get(instr.X))

	case *ssa.MakeInterface:
		fr.env[instr] = iface{t: instr.X.Type(), v: fr.get(instr.X)}

	case *ssa.Extract:
		fr.env[instr] = fr.get(instr.Tuple).(tuple)[instr.Index]

	case *ssa.Slice:
		fr.env[instr] = i.slice(instr, fr.get(instr.X), fr.get(instr.Low), fr.get(instr.High), fr.get(instr.Max))

	case *ssa.Return:
		switch len(instr.Results) {
		case 0:
		case 1:
			fr.result = fr.get(instr.Results[0])
		default:
			var res []value
			for _, r := range instr.Results {
				res = append(res, fr.get(r))
			}
			fr.result = tuple(res)
		}
		fr.block = nil
		return kReturn

	case *ssa.RunDefers:
		fr.runDefers()

	case *ssa.Panic:
		panic(targetPanic{fr.get(instr.X)})

	case *ssa.Send:
		i.chanSend(fr, fr.get(instr.Chan), fr.get(instr.X))

	case *ssa.Store:
		addr := fr.get(instr.Addr)
		if sp, ok := addr.(*symPtr); ok {
			i.symStore(sp, fr.get(instr.Val))
		} else {
			i.store(deref(instr.Addr.Type()), i.derefPtr(addr), fr.get(instr.Val))
		}

	case *ssa.If:
		succ := 1
		if i.truth(fr.get(instr.Cond)) {
			succ = 0
		}
		fr.prevBlock, fr.block = fr.block, fr.block.Succs[succ]
		return kJump

	case *ssa.Jump:
		fr.prevBlock, fr.block = fr.block, fr.block.Succs[0]
		return kJump

	case *ssa.Defer:
		fn, args := prepareCall(fr, &instr.Call)
		defers := &fr.defers
		if into := fr.get(instr.DeferStack); into != nil {
			defers = into.(**deferred)
		}
		*defers = &deferred{
			fn:    fn,
			args:  args,
			instr: instr,
			tail:  *defers,
		}

	case *ssa.Go:
		fn, args := prepareCall(fr, &instr.Call)
		i.goStmt(fr, instr, fn, args)

	case *ssa.MakeChan:
		fr.env[instr] = i.makeChan(int(i.concreteInt(fr.get(instr.Size))), instr.Type().Underlying().(*types.Chan).Elem())

	case *ssa.Alloc:
		var addr *value
		if instr.Heap {
			addr = new(value)
			fr.env[instr] = addr
		} else {
			addr = fr.env[instr].(*value)
		}
		*addr = zero(deref(instr.Type()))

	case *ssa.MakeSlice:
		c := i.concreteInt(fr.get(instr.Cap))
		l := i.concreteInt(fr.get(instr.Len))
		if l < 0 || l > 1<<26 {
			i.rtPanic("makeslice: len out of range")
		}
		if c < l || c > 1<<26 {
			i.rtPanic("makeslice: cap out of range")
		}
		slice := make([]value, c)
		tElt := instr.Type().Underlying().(*types.Slice).Elem()
		for i := range slice {
			slice[i] = zero(tElt)
		}
		fr.env[instr] = slice[:l]

	case *ssa.MakeMap:
		fr.env[instr] = i.makeMap(instr.Type().Underlying().(*types.Map).Key())

	case *ssa.Range:
		fr.env[instr] = i.rangeIter(fr, fr.get(instr.X), instr.X.Type())

	case *ssa.Next:
		fr.env[instr] = fr.get(instr.Iter).(iter).next()

	case *ssa.FieldAddr:
		p := i.derefPtr(fr.get(instr.X))
		fr.env[instr] = &(*p).(structure)[instr.Field]

	case *ssa.Field:
		fr.env[instr] = fr.get(instr.X).(structure)[instr.Field]

	case *ssa.IndexAddr:
		x := fr.get(instr.X)
		idx := fr.get(instr.Index)
		var cells []value
		switch x := x.(type) {
		case []value:
			cells = x
		case *value: // *array
			if x == nil {
				i.rtPanic("invalid memory address or nil pointer dereference")
			}
			cells = (*x).(array)
		default:
			panic(fmt.Sprintf("unexpected x type in IndexAddr: %T", x))
		}
		if t, ok := idx.(*Term); ok {
			fr.env[instr] = i.symIndexAddr(cells, t, isSigned(instr.Index.Type()))
		} else {
			k := asInt64(idx)
			if k < 0 || k >= int64(len(cells)) {
				i.rtPanic(fmt.Sprintf("index out of range [%d] with length %d", k, len(cells)))
			}
			fr.env[instr] = &cells[k]
		}

	case *ssa.Index:
		x := fr.get(instr.X)
		idx := fr.get(instr.Index)
		fr.env[instr] = i.index(x, idx, isSigned(instr.Index.Type()))

	case *ssa.Lookup:
		fr.env[instr] = i.lookup(instr, fr.get(instr.X), fr.get(instr.Index))

	case *ssa.MapUpdate:
		m := fr.get(instr.Map).(*gmap)
		if m == nil {
			panic(targetPanic{iface{i.runtimeErrorString, "assignment to entry in nil map"}})
		}
		i.mapInsert(m, fr.get(instr.Key), fr.get(instr.Value))

	case *ssa.TypeAssert:
		fr.env[instr] = typeAssert(fr.i, instr, fr.get(instr.X).(iface))

	case *ssa.MakeClosure:
		var bindings []value
		for _, binding := range instr.Bindings {
			bindings = append(bindings, fr.get(binding))
		}
		fr.env[instr] = &closure{instr.Fn.(*ssa.Function), bindings}

	case *ssa.Phi:
		panic("unreachable: phi") // phis are processed at block entry

	case *ssa.Select:
		fr.env[instr] = i.selectStmt(fr, instr)

	default:
		panic(fmt.Sprintf("unexpected instruction: %T", instr))
	}

	return kNext
}

// prepareCall determines the function value and argument values for a
// function call in a Call, Go or Defer instruction, performing
// interface method lookup if needed.
func prepareCall(fr *frame, call *ssa.CallCommon) (fn value, args []value) {
	v := fr.get(call.Value)
	if call.Method == nil {
		// Function call.
		fn = v
	} else {
		// Interface method invocation.
		recv := v.(iface)
		if recv.t == nil {
			fr.i.rtPanic("invalid memory address or nil pointer dereference")
		}
		if f := lookupMethod(fr.i, recv.t, call.Method); f == nil {
			panic(fmt.Sprintf("method set for dynamic type %v does not contain %s", recv.t, call.Method))
		} else {
			fn = f
		}
		args = append(args, recv.v)
	}
	for _, arg := range call.Args {
		args = append(args, fr.get(arg))
	}
	return
}

// call interprets a call to a function (function, builtin or closure)
// fn with arguments args, returning its result.
func call(i *interpreter, caller *frame, callpos token.Pos, fn value, args []value) value {
	switch fn := fn.(type) {
	case *ssa.Function:
		if fn == nil {
			i.rtPanic("invalid memory address or nil pointer dereference") // nil of func type
		}
		return callSSA(i, caller, callpos, fn, args, nil)
	case *closure:
		return callSSA(i, caller, callpos, fn.Fn, args, fn.Env)
	case *ssa.Builtin:
		return callBuiltin(caller, callpos, fn, args)
	}
	panic(fmt.Sprintf("cannot call %T", fn))
}

const maxCallDepth = 4000

// callSSA interprets a call to function fn with arguments args,
// and lexical environment env, returning its result.
func callSSA(i *interpreter, caller *frame, callpos token.Pos, fn *ssa.Function, args []value, env []value) value {
	fr := &frame{
		i:      i,
		caller: caller, // for panic/recover
		fn:     fn,
	}
	if caller != nil {
		fr.g = caller.g
	}
	if fn.Synthetic == "package initializer" && fn != i.rawInit {
		if fn.Pkg != nil {
			i.initPackage(fn.Pkg, i.wantInit)
		}
		return nil
	}
	if ov := i.overrideFor(fn); ov != nil {
		return callSSA(i, caller, callpos, ov, args, nil)
	}
	if ext := findExternal(fn); ext != nil {
		if i.trace {
			fmt.Printf("%*s(external) %s\n", i.depth, "", fn)
		}
		return ext(fr, args)
	}
	if fn.Blocks == nil {
		i.unsupported("no code for function: %s", fn.String())
	}
	if fn.TypeParams().Len() > 0 && len(fn.TypeArgs()) == 0 {
		panic("generic function body reached without instantiation: " + fn.String())
	}
	i.depth++
	if i.depth > maxCallDepth {
		i.depth--
		panic(pathEnd{kind: "budget", msg: "call depth exceeded in " + fn.String()})
	}
	defer func() { i.depth-- }()
	if i.trace {
		fmt.Printf("%*sEntering %s\n", i.depth, "", fn)
	}

	fr.env = make(map[ssa.Value]value, 16)
	fr.block = fn.Blocks[0]
	fr.locals = make([]value, len(fn.Locals))
	for i, l := range fn.Locals {
		fr.locals[i] = zero(deref(l.Type()))
		fr.env[l] = &fr.locals[i]
	}
	for i, p := range fn.Params {
		fr.env[p] = args[i]
	}
	for i, fv := range fn.FreeVars {
		fr.env[fv] = env[i]
	}
	for fr.block != nil {
		runFrame(fr)
	}
	return fr.result
}

// runFrame executes SSA instructions starting at fr.block and
// continuing until a return, a panic, or a recovered panic.
func runFrame(fr *frame) {
	defer func() {
		if fr.block == nil {
			return // normal return
		}
		p := recover()
		switch p := p.(type) {
		case pathEnd:
			panic(p)
		case targetPanic:
		case exitPanic:
			panic(pathEnd{kind: "exit", msg: fmt.Sprint(int(p))})
		case goexitPanic:
		default:
			// a crash of the interpreter itself: unsupported construct or engine bug
			var where string
			if fr.block != nil {
				where = fr.fn.String()
			}
			buf := make([]byte, 4096)
			buf = buf[:runtime.Stack(buf, false)]
			panic(pathEnd{kind: "unsupported", msg: fmt.Sprintf("engine: %v in %s\n%s", p, where, trimStack(string(buf)))})
		}
		fr.panicking = true
		fr.panic = p
		fr.runDefers()
		fr.block = fr.fn.Recover
	}()

	i := fr.i
	for {
		nonPhis := executePhis(fr)
		n := int64(len(nonPhis))
		if i.run == nil {
			i.initSteps += n
			if i.initSteps > 60_000_000 {
				panic(pathEnd{kind: "init-budget", msg: "package init exceeded its instruction budget in " + fr.fn.String()})
			}
		}
		if i.run != nil {
			i.run.steps += n
			if i.run.steps > i.run.maxSteps {
				panic(pathEnd{kind: "budget", msg: "instruction budget exceeded in " + fr.fn.String()})
			}
			if i.fnCount != nil {
				i.fnCount[fr.fn] += n
			}
		}
		for _, instr := range nonPhis {
			if i.trace {
				if v, ok := instr.(ssa.Value); ok {
					fmt.Printf("%*s\t%s = %s\n", i.depth, "", v.Name(), instr)
				} else {
					fmt.Printf("%*s\t%s\n", i.depth, "", instr)
				}
			}
			if i.run == nil {
				if lenientVisit(fr, instr) == kReturn {
					return
				}
				continue
			}
			if visitInstr(fr, instr) == kReturn {
				return
			}
		}
	}
}

// lenientVisit executes one instruction during package initialisation;
// an instruction the engine cannot execute yields the zero value of its
// type (recorded in initFail) instead of aborting the whole init.
func lenientVisit(fr *frame, instr ssa.Instruction) (k continuation) {
	defer func() {
		if p := recover(); p != nil {
			pe, ok := p.(pathEnd)
			if tp, isT := p.(targetPanic); isT {
				pe, ok = pathEnd{kind: "unsupported", msg: "panic during init: " + describePanic(tp)}, true
			}
			if !ok || pe.kind != "unsupported" {
				panic(p)
			}
			if fr.fn.Pkg != nil {
				if _, seen := fr.i.initFail[fr.fn.Pkg]; !seen {
					fr.i.initFail[fr.fn.Pkg] = "lenient: " + pe.msg
				}
			}
			if v, isVal := instr.(ssa.Value); isVal {
				func() {
					defer func() {
						if recover() != nil {
							fr.env[v] = nil
						}
					}()
					fr.env[v] = zero(v.Type())
				}()
			}
			k = kNext
			if _, isIf := instr.(*ssa.If); isIf {
				fr.prevBlock, fr.block = fr.block, fr.block.Succs[1]
				k = kJump
			}
		}
	}()
	return visitInstr(fr, instr)
}

func trimStack(s string) string {
	lines := strings.Split(s, "\n")
	var out []string
	for _, l := range lines {
		if strings.Contains(l, "/gosym/") {
			out = append(out, strings.TrimSpace(l))
			if len(out) >= 6 {
				break
			}
		}
	}
	return strings.Join(out, " | ")
}

// executePhis executes the phi-nodes at the start of the current
// block and returns the non-phi instructions.
func executePhis(fr *frame) []ssa.Instruction {
	firstNonPhi := -1
	for i, instr := range fr.block.Instrs {
		if _, ok := instr.(*ssa.Phi); !ok {
			firstNonPhi = i
			break
		}
	}
	nonPhis := fr.block.Instrs[firstNonPhi:]
	if firstNonPhi > 0 {
		phis := fr.block.Instrs[:firstNonPhi]
		predIndex := slices.Index(fr.block.Preds, fr.prevBlock)
		fr.phitemps = fr.phitemps[:0]
		for _, phi := range phis {
			phi := phi.(*ssa.Phi)
			fr.phitemps = append(fr.phitemps, fr.get(phi.Edges[predIndex]))
		}
		for i, phi := range phis {
			fr.env[phi.(*ssa.Phi)] = fr.phitemps[i]
		}
	}
	return nonPhis
}

// doRecover implements the recover() built-in.
func doRecover(caller *frame) value {
	if caller != nil && !caller.panicking &&
		caller.caller != nil && caller.caller.panicking {
		caller.caller.panicking = false
		p := caller.caller.panic
		caller.caller.panic = nil
		switch p := p.(type) {
		case targetPanic:
			return p.v
		case goexitPanic:
			caller.caller.panicking = true
			caller.caller.panic = p
			return iface{}
		default:
			panic(fmt.Sprintf("unexpected panic type %T in target call to recover()", p))
		}
	}
	return iface{}
}

type goexitPanic struct{}

// newInterpreter creates a worker interpreter over prog and allocates
// global storage.
func newInterpreter(prog *ssa.Program, sizes types.Sizes) *interpreter {
	i := &interpreter{
		prog:     prog,
		globals:  make(map[*ssa.Global]*value),
		sizes:    sizes,
		ts:       NewTermStore(),
		initDone: map[*ssa.Package]bool{},
		initFail: map[*ssa.Package]string{},
		userData: map[string]any{},
	}
	runtimePkg := prog.ImportedPackage("runtime")
	if runtimePkg == nil {
		panic("ssa.Program doesn't include runtime package")
	}
	i.runtimeErrorString = runtimePkg.Type("errorString").Object().Type()
	for _, pkg := range prog.AllPackages() {
		for _, m := range pkg.Members {
			if v, ok := m.(*ssa.Global); ok {
				cell := zero(deref(v.Type()))
				i.globals[v] = &cell
			}
		}
	}
	return i
}

// initAllowed: packages whose init functions are interpreted (per worker).
// Everything else keeps zero-valued globals unless a check lists it in
// WantInit: package inits are environment (they read os.Args, env vars,
// compile regexps, build big tables) and most are irrelevant to the code
// under test.
var initAllowStd = map[string]bool{
	"errors": true, "unicode": true, "unicode/utf8": true, "unicode/utf16": true, "strconv": true, "strings": true, "bytes": true,
	"io": true, "io/fs": true, "path": true, "path/filepath": true, "sort": true, "slices": true, "maps": true, "math": true, "math/bits": true,
	"go/token": true, "go/scanner": true, "go/ast": true, "go/parser": true, "go/printer": false, "bufio": true, "text/tabwriter": true,
	"encoding/base64": true, "encoding/hex": true, "cmp": true, "internal/stringslite": true, "internal/filepathlite": true,
	"internal/oserror": true, "internal/itoa": true, "internal/byteorder": true, "container/list": true, "container/heap": true,
	"go/build/constraint": true, "go/internal/typeparams": true, "hash": true, "syscall": false, "io/ioutil": true,
	"github.com/qiniu/x/errors": true, "github.com/qiniu/x/stringutil": true, "github.com/qiniu/x/byteutil": true, "github.com/qiniu/x/xgo": true,
	"github.com/qiniu/x/stringslice": true, "github.com/qiniu/x/ctype": true, "github.com/qiniu/x/xgo/ng": false,
	"github.com/goplus/gogen/token": true, "context": true,
}

var initDenyRepo = map[string]bool{
	"github.com/goplus/xgo/cl": true, "github.com/goplus/xgo/env": true,
	"github.com/goplus/xgo/x/build": true, "github.com/goplus/xgo/x/typesutil": true, "github.com/goplus/xgo/cl/internal/typesutil": true,
}

func initAllowed(path string, wanted map[string]bool) bool {
	if wanted[path] {
		return true
	}
	if strings.HasPrefix(path, repoModule) {
		if initDenyRepo[path] || strings.HasPrefix(path, repoModule+"/cmd") {
			return false
		}
		return true
	}
	return initAllowStd[path]
}

// initPackage runs pkg's init function (after its imports') once per worker.
func (i *interpreter) initPackage(pkg *ssa.Package, wanted map[string]bool) {
	if i.initDone[pkg] {
		return
	}
	i.initDone[pkg] = true
	i.wantInit = wanted
	for _, imp := range pkg.Pkg.Imports() {
		if p := i.prog.Package(imp); p != nil {
			i.initPackage(p, wanted)
		}
	}
	path := pkg.Pkg.Path()
	if !initAllowed(path, wanted) {
		i.initFail[pkg] = "skipped by configuration"
		return
	}
	fn := pkg.Func("init")
	if fn == nil {
		return
	}
	if os.Getenv("GOSYM_INITLOG") != "" {
		t0 := time.Now()
		fmt.Fprintf(os.Stderr, "init %s ...\n", path)
		defer func() { fmt.Fprintf(os.Stderr, "init %s done in %.2fs\n", path, time.Since(t0).Seconds()) }()
	}
	i.initSteps = 0
	func() {
		defer func() {
			if p := recover(); p != nil {
				i.initFail[pkg] = fmt.Sprint(p)
				i.depth = 0
			}
		}()
		// The package's own init body re-invokes its imports' init via
		// init guards (init$guard); those calls are cheap no-ops here
		// because guards are ordinary globals.
		i.callInitBody(fn)
	}()
}

// callInitBody runs a package init function but ignores calls to other
// packages' init functions (handled by initPackage in dependency order).
func (i *interpreter) callInitBody(fn *ssa.Function) {
	old := i.rawInit
	i.rawInit = fn
	defer func() { i.rawInit = old }()
	call(i, nil, token.NoPos, fn, nil)
}

// If the target program panics, the interpreter panics with this type.
type targetPanic struct {
	v value
}

func (p targetPanic) String() string {
	return toString(p.v)
}

// If the target program calls exit, the interpreter panics with this type.
type exitPanic int
