package main

// Intrinsics: harness primitives (vx*), and models of functions that have
// no Go body or that use unsafe/reflect. Everything listed here is part
// of the trusted base of every check that reaches it.

import (
	"fmt"
	"go/token"
	"go/types"
	"math"
	"strconv"
	"strings"

	"golang.org/x/tools/go/ssa"
)

type externalFn func(fr *frame, args []value) value

var externals map[string]externalFn
var harnessIntrinsics map[string]externalFn
var externalPrefixes []struct {
	prefix string
	fn     func(name string) externalFn
}

// overrideFor returns the harness function that replaces fn on this
// interpreter (environment stubs declared by the check: file system, hash, ...).
func (i *interpreter) overrideFor(fn *ssa.Function) *ssa.Function {
	if len(i.overrides) == 0 || fn.Parent() != nil {
		return nil
	}
	return i.overrides[fn.String()]
}

func findExternal(fn *ssa.Function) externalFn {
	name := fn.Name()
	if len(name) > 2 && name[0] == 'v' && name[1] == 'x' && fn.Signature.Recv() == nil {
		if e, ok := harnessIntrinsics[name]; ok {
			return e
		}
	}
	if fn.Parent() != nil {
		return nil
	}
	full := fn.String()
	if e, ok := externals[full]; ok {
		return e
	}
	if strings.HasPrefix(full, "(*sync/atomic.Pointer[") {
		if k := strings.IndexByte(name, '['); k >= 0 {
			name = name[:k]
		}
		switch name {
		case "Load":
			return func(fr *frame, args []value) value {
				c := &(*fr.i.derefPtr(args[0])).(structure)[2]
				if p, ok := (*c).(*value); ok {
					return p
				}
				return (*value)(nil)
			}
		case "Store":
			return func(fr *frame, args []value) value {
				c := &(*fr.i.derefPtr(args[0])).(structure)[2]
				fr.i.logStore(c)
				*c = args[1]
				return nil
			}
		case "Swap":
			return func(fr *frame, args []value) value {
				c := &(*fr.i.derefPtr(args[0])).(structure)[2]
				old, ok := (*c).(*value)
				if !ok {
					old = nil
				}
				fr.i.logStore(c)
				*c = args[1]
				return old
			}
		case "CompareAndSwap":
			return func(fr *frame, args []value) value {
				c := &(*fr.i.derefPtr(args[0])).(structure)[2]
				cur, ok := (*c).(*value)
				if !ok {
					cur = nil
				}
				if cur == args[1].(*value) {
					fr.i.logStore(c)
					*c = args[2]
					return true
				}
				return false
			}
		}
	}
	if o := fn.Origin(); o != nil && o != fn {
		if e, ok := externals[o.String()]; ok {
			return e
		}
	}
	return nil
}

func zeroResult(fn *ssa.Function) value {
	res := fn.Signature.Results()
	switch res.Len() {
	case 0:
		return nil
	case 1:
		return zero(res.At(0).Type())
	}
	return zero(res)
}

func stubZero(fr *frame, args []value) value { return zeroResult(fr.fn) }

func strOf(v value) string {
	switch v := v.(type) {
	case string:
		return v
	case sstring:
		return "<symbolic string>"
	}
	return fmt.Sprint(v)
}

func init() {
	harnessIntrinsics = map[string]externalFn{
		"vxByte": func(fr *frame, args []value) value { return fr.i.run.newVar(8, "byte", "") },
		"vxBool": func(fr *frame, args []value) value { return fr.i.run.newVar(0, "bool", "") },
		"vxInt":  func(fr *frame, args []value) value { return fr.i.run.newVar(64, "int", "") },
		"vxInt32": func(fr *frame, args []value) value {
			return fr.i.run.newVar(32, "int32", "")
		},
		"vxIntRange": func(fr *frame, args []value) value {
			i := fr.i
			lo, hi := asInt64(args[0]), asInt64(args[1])
			v := i.run.newVar(64, "int", fmt.Sprintf("[%d,%d]", lo, hi))
			ts := i.ts
			i.run.assume(boolV(ts.And(ts.Cmp(opSLe, ts.Const(64, uint64(lo)), v), ts.Cmp(opSLe, v, ts.Const(64, uint64(hi))))))
			return v
		},
		"vxBytes": func(fr *frame, args []value) value {
			n := fr.i.concreteInt(args[0])
			r := make([]value, n)
			for k := range r {
				r[k] = fr.i.run.newVar(8, "byte", "")
			}
			return r
		},
		"vxString": func(fr *frame, args []value) value {
			n := fr.i.concreteInt(args[0])
			r := make(sstring, n)
			for k := range r {
				r[k] = fr.i.run.newVar(8, "byte", "")
			}
			if n == 0 {
				return ""
			}
			return r
		},
		"vxAssume": func(fr *frame, args []value) value { fr.i.run.assume(args[0]); return nil },
		"vxAssert": func(fr *frame, args []value) value {
			fr.i.run.assert(args[0], strOf(args[1]))
			return nil
		},
		"vxReach": func(fr *frame, args []value) value { fr.i.run.reach[strOf(args[0])] = true; return nil },
		"vxParam": func(fr *frame, args []value) value {
			name := strOf(args[0])
			v, ok := fr.i.run.ex.cfg.Params[name]
			if !ok {
				fr.i.unsupported("harness parameter %q not set", name)
			}
			return v
		},
		"vxConcrete": func(fr *frame, args []value) value { return int(fr.i.concreteInt(args[0])) },
		"vxIsSym": func(fr *frame, args []value) value { return hasSym(args[0]) },
		"vxNote": func(fr *frame, args []value) value {
			fr.i.run.noteVals = append(fr.i.run.noteVals, noteVal{strOf(args[0]), args[1]})
			return nil
		},
		"vxObserve": func(fr *frame, args []value) value {
			fr.i.run.obs = append(fr.i.run.obs, obsRec{strOf(args[0]), args[1]})
			return nil
		},
		"vxTrace": func(fr *frame, args []value) value {
			fr.i.run.trace = append(fr.i.run.trace, strOf(args[0]))
			return nil
		},
		"vxUF": func(fr *frame, args []value) value {
			i := fr.i
			name := strOf(args[0])
			var ts []*Term
			for _, a := range args[1].([]value) {
				ts = append(ts, i.toTerm(a))
			}
			return i.ts.UF(name, ts)
		},
		"vxPause": func(fr *frame, args []value) value { return nil },
		// standard output of the code under test as an observable (fmt.Print, Printf, Println)
		"vxStdoutBegin": func(fr *frame, args []value) value { fr.i.run.stdout = ""; return nil },
		"vxStdoutEnd": func(fr *frame, args []value) value {
			s := fr.i.run.stdout
			fr.i.run.stdout = nil
			if s == nil {
				return ""
			}
			return s
		},
		// instrumentation points (inserted by instrument.go in front of every synchronisation operation of the
		// harness package): the engine only numbers them per goroutine; natively they enforce a schedule
		"vxSchedPoint": func(fr *frame, args []value) value {
			if sc := fr.i.sched; sc != nil {
				g := fr.g
				if g == nil {
					g = sc.cur
				}
				g.points++
			}
			return nil
		},
		"vxSchedReset": func(fr *frame, args []value) value { return nil },
		// resume point behind a possibly blocking operation: passed when the goroutine runs again
		"vxSchedAfter": func(fr *frame, args []value) value {
			if sc := fr.i.sched; sc != nil {
				g := fr.g
				if g == nil {
					g = sc.cur
				}
				g.points++
				sc.record(g)
			}
			return nil
		},
		"vxGo": func(fr *frame, args []value) value {
			sc := fr.i.sched
			if sc == nil {
				fr.i.unsupported("go statement (sequential mode)")
			}
			g := fr.g
			if g == nil {
				g = sc.cur
			}
			g.points++
			sc.record(g)
			sc.spawn(fr, args[0], nil)
			return nil
		},
		"vxProcs": func(fr *frame, args []value) value { return nil },
		"vxQuiesce": func(fr *frame, args []value) value {
			if fr.i.sched == nil {
				return 0
			}
			return fr.i.sched.quiesce(fr)
		},
		"vxSteps": func(fr *frame, args []value) value { return int(fr.i.run.steps) },
		"vxSymbolic": func(fr *frame, args []value) value { return true },
	}

	externals = map[string]externalFn{
		// internal/bytealg (assembly)
		"internal/bytealg.IndexByte":       extIndexByte,
		"internal/bytealg.IndexByteString": extIndexByte,
		"internal/bytealg.Count":           extCountByte,
		"internal/bytealg.CountString":     extCountByte,
		"internal/bytealg.Equal":           extBytesEqual,
		"internal/bytealg.Compare":         extCompare,
		"internal/bytealg.Index":           extIndex,
		"internal/bytealg.IndexString":     extIndex,
		"internal/bytealg.MakeNoZero": func(fr *frame, args []value) value {
			n := fr.i.concreteInt(args[0])
			r := make([]value, n)
			for k := range r {
				r[k] = uint8(0)
			}
			return r
		},
		"internal/bytealg.Cutover": func(fr *frame, args []value) value { return 4 },
		"bytes.Equal":              extBytesEqual,
		"bytes.Compare":            extCompare,
		"strings.Compare":          extCompare,
		"internal/stringslite.Index": nil, // interpreted
		"unique.Make":              nil,

		// strings.Builder (uses unsafe)
		"(*strings.Builder).String":      extBuilderString,
		"(*strings.Builder).Len":         func(fr *frame, args []value) value { return len(builderBuf(fr.i, args[0])) },
		"(*strings.Builder).Cap":         func(fr *frame, args []value) value { return cap(builderBuf(fr.i, args[0])) },
		"(*strings.Builder).Reset":       func(fr *frame, args []value) value { setBuilderBuf(fr.i, args[0], nil); return nil },
		"(*strings.Builder).Grow":        func(fr *frame, args []value) value { return nil },
		"(*strings.Builder).copyCheck":   func(fr *frame, args []value) value { return nil },
		"(*strings.Builder).Write":       extBuilderWrite,
		"(*strings.Builder).WriteString": extBuilderWrite,
		"(*strings.Builder).WriteByte": func(fr *frame, args []value) value {
			setBuilderBuf(fr.i, args[0], append(builderBuf(fr.i, args[0]), args[1]))
			return iface{}
		},
		"(*strings.Builder).WriteRune": func(fr *frame, args []value) value {
			buf := builderBuf(fr.i, args[0])
			n0 := len(buf)
			res := fr.i.callNamed("unicode/utf8", "AppendRune", []value{buf, args[1]}).([]value)
			setBuilderBuf(fr.i, args[0], res)
			return tuple{len(res) - n0, iface{}}
		},
		"internal/stringslite.Clone": func(fr *frame, args []value) value { return args[0] },
		"strings.Clone":              func(fr *frame, args []value) value { return args[0] },
		"github.com/qiniu/x/byteutil.Bytes": func(fr *frame, args []value) value {
			n, at := seqOf(args[0])
			r := make([]value, n)
			for k := 0; k < n; k++ {
				r[k] = at(k)
			}
			return r
		},
		"github.com/qiniu/x/stringutil.String": func(fr *frame, args []value) value {
			return fr.i.bytesToString(args[0].([]value))
		},
		"unsafe.String":     nil,
		"unsafe.StringData": nil,

		// math bit casts
		"math.archLog":         func(fr *frame, args []value) value { return math.Log(concF64(args[0])) },
		"math.archExp":         func(fr *frame, args []value) value { return math.Exp(concF64(args[0])) },
		"math.archSqrt":        func(fr *frame, args []value) value { return math.Sqrt(concF64(args[0])) },
		"math.archFloor":       func(fr *frame, args []value) value { return math.Floor(concF64(args[0])) },
		"math.archCeil":        func(fr *frame, args []value) value { return math.Ceil(concF64(args[0])) },
		"math.archTrunc":       func(fr *frame, args []value) value { return math.Trunc(concF64(args[0])) },
		"math.Float64bits":     func(fr *frame, args []value) value { return math.Float64bits(args[0].(float64)) },
		"math.Float64frombits": func(fr *frame, args []value) value { return math.Float64frombits(args[0].(uint64)) },
		"math.Float32bits":     func(fr *frame, args []value) value { return math.Float32bits(args[0].(float32)) },
		"math.Float32frombits": func(fr *frame, args []value) value { return math.Float32frombits(args[0].(uint32)) },

		// sync (sequential mode: locks are no-ops)
		"(*sync.Mutex).Lock":      extLock,
		"(*sync.Mutex).Unlock":    extUnlock,
		"(*sync.Mutex).TryLock":   func(fr *frame, args []value) value { return true },
		"(*sync.RWMutex).Lock":    extLock,
		"(*sync.RWMutex).Unlock":  extUnlock,
		"(*sync.RWMutex).RLock": func(fr *frame, args []value) value {
			if fr.i.sched != nil {
				fr.i.sched.rlock(fr, args[0].(*value))
			}
			return nil
		},
		"(*sync.RWMutex).RUnlock": func(fr *frame, args []value) value {
			if fr.i.sched != nil {
				fr.i.sched.runlock(fr, args[0].(*value))
			}
			return nil
		},
		"(*sync.Cond).Wait": func(fr *frame, args []value) value {
			if fr.i.sched == nil {
				fr.i.unsupported("sync.Cond.Wait in sequential mode")
			}
			fr.i.sched.condWait(fr, fr.i.derefPtr(args[0]))
			return nil
		},
		"(*sync.Cond).Signal": func(fr *frame, args []value) value {
			if fr.i.sched != nil {
				fr.i.sched.condSignal(fr, fr.i.derefPtr(args[0]), false)
			}
			return nil
		},
		"(*sync.Cond).Broadcast": func(fr *frame, args []value) value {
			if fr.i.sched != nil {
				fr.i.sched.condSignal(fr, fr.i.derefPtr(args[0]), true)
			}
			return nil
		},
		"(*sync.WaitGroup).Add": func(fr *frame, args []value) value {
			if fr.i.sched != nil {
				fr.i.sched.wgAdd(fr, fr.i.derefPtr(args[0]), int(asInt64(args[1])))
			}
			return nil
		},
		"(*sync.WaitGroup).Done": func(fr *frame, args []value) value {
			if fr.i.sched != nil {
				fr.i.sched.wgAdd(fr, fr.i.derefPtr(args[0]), -1)
			}
			return nil
		},
		"(*sync.WaitGroup).Wait": func(fr *frame, args []value) value {
			if fr.i.sched != nil {
				fr.i.sched.wgWait(fr, fr.i.derefPtr(args[0]))
			}
			return nil
		},
		"(*sync.Once).Do":         extOnceDo,
		"(*sync.Once).doSlow":     extOnceDo,
		"(*sync.Pool).Get":        extPoolGet,
		"(*sync.Pool).Put":        func(fr *frame, args []value) value { return nil },

		// atomic.Value (struct{ v any }): the interface value is kept in field 0
		"(*sync/atomic.Value).Load": func(fr *frame, args []value) value {
			c := &(*fr.i.derefPtr(args[0])).(structure)[0]
			if itf, ok := (*c).(iface); ok {
				return itf
			}
			return iface{}
		},
		"(*sync/atomic.Value).Store": func(fr *frame, args []value) value {
			itf, _ := args[1].(iface)
			if itf.t == nil {
				panic(targetPanic{iface{types.Typ[types.String], "sync/atomic: store of nil value into Value"}})
			}
			c := &(*fr.i.derefPtr(args[0])).(structure)[0]
			fr.i.logStore(c)
			*c = itf
			return nil
		},
		"(*sync/atomic.Value).Swap": func(fr *frame, args []value) value {
			c := &(*fr.i.derefPtr(args[0])).(structure)[0]
			old, ok := (*c).(iface)
			if !ok {
				old = iface{}
			}
			fr.i.logStore(c)
			*c = args[1]
			return old
		},
		"sync/atomic.LoadInt32":   extAtomicLoad,
		"sync/atomic.LoadInt64":   extAtomicLoad,
		"sync/atomic.LoadUint32":  extAtomicLoad,
		"sync/atomic.LoadUint64":  extAtomicLoad,
		"sync/atomic.LoadUintptr": extAtomicLoad,
		"sync/atomic.LoadPointer": extAtomicLoad,
		"sync/atomic.StoreInt32":  extAtomicStore,
		"sync/atomic.StoreInt64":  extAtomicStore,
		"sync/atomic.StoreUint32": extAtomicStore,
		"sync/atomic.StoreUint64": extAtomicStore,
		"sync/atomic.StoreUintptr": extAtomicStore,
		"sync/atomic.AddInt32":    extAtomicAdd,
		"sync/atomic.AddInt64":    extAtomicAdd,
		"sync/atomic.AddUint32":   extAtomicAdd,
		"sync/atomic.AddUint64":   extAtomicAdd,
		"sync/atomic.AddUintptr":  extAtomicAdd,
		"sync/atomic.CompareAndSwapInt32":  extAtomicCAS,
		"sync/atomic.CompareAndSwapInt64":  extAtomicCAS,
		"sync/atomic.CompareAndSwapUint32": extAtomicCAS,
		"sync/atomic.CompareAndSwapUint64": extAtomicCAS,
		"sync/atomic.SwapInt32":  extAtomicSwap,
		"sync/atomic.SwapInt64":  extAtomicSwap,
		"sync/atomic.SwapUint32": extAtomicSwap,
		"sync/atomic.SwapUint64": extAtomicSwap,

		// runtime / os / time
		"runtime.Caller":        func(fr *frame, args []value) value { return tuple{uintptr(0), "", 0, false} },
		"runtime.Callers":       func(fr *frame, args []value) value { return 0 },
		"runtime.GC":            func(fr *frame, args []value) value { return nil },
		"runtime.Gosched":       extGosched,
		"runtime.KeepAlive":     func(fr *frame, args []value) value { return nil },
		"runtime.SetFinalizer":  func(fr *frame, args []value) value { return nil },
		"runtime.GOMAXPROCS":    func(fr *frame, args []value) value { return 1 },
		"runtime.NumCPU":        func(fr *frame, args []value) value { return 1 },
		"runtime/debug.Stack":   func(fr *frame, args []value) value { return []value(nil) },
		"runtime.Stack":         func(fr *frame, args []value) value { return 0 },
		"os.Exit":               func(fr *frame, args []value) value { panic(exitPanic(asInt64(args[0]))) },
		"os.Getenv":             func(fr *frame, args []value) value { return "" },
		"os.LookupEnv":          func(fr *frame, args []value) value { return tuple{"", false} },
		"os.Getwd":              func(fr *frame, args []value) value { return tuple{"/work", iface{}} },
		"(*os.File).Write":      extFileWrite,
		"(*os.File).WriteString": extFileWrite,
		"time.Now":              stubZero,
		"time.Since":            stubZero,
		"time.Sleep":            func(fr *frame, args []value) value { return nil },

		// log
		"log.Printf":  func(fr *frame, args []value) value { return nil },
		"log.Println": func(fr *frame, args []value) value { return nil },
		"log.Print":   func(fr *frame, args []value) value { return nil },
		"log.Fatalf":  extFatal, "log.Fatalln": extFatal, "log.Fatal": extFatal,
		"log.Panicf":  extLogPanicf, "log.Panicln": extLogPanic, "log.Panic": extLogPanic,
		"github.com/qiniu/x/log.Printf":  func(fr *frame, args []value) value { return nil },
		"github.com/qiniu/x/log.Println": func(fr *frame, args []value) value { return nil },
		"github.com/qiniu/x/log.Print":   func(fr *frame, args []value) value { return nil },
		"github.com/qiniu/x/log.Debug":   func(fr *frame, args []value) value { return nil },
		"github.com/qiniu/x/log.Debugf":  func(fr *frame, args []value) value { return nil },
		"github.com/qiniu/x/log.Info":    func(fr *frame, args []value) value { return nil },
		"github.com/qiniu/x/log.Infof":   func(fr *frame, args []value) value { return nil },
		"github.com/qiniu/x/log.Warn":    func(fr *frame, args []value) value { return nil },
		"github.com/qiniu/x/log.Warnf":   func(fr *frame, args []value) value { return nil },
		"github.com/qiniu/x/log.Error":   func(fr *frame, args []value) value { return nil },
		"github.com/qiniu/x/log.Errorf":  func(fr *frame, args []value) value { return nil },
		"github.com/qiniu/x/log.Fatalf":  extFatal, "github.com/qiniu/x/log.Fatalln": extFatal, "github.com/qiniu/x/log.Fatal": extFatal,
		"github.com/qiniu/x/log.Panicf":  extLogPanicf, "github.com/qiniu/x/log.Panicln": extLogPanic, "github.com/qiniu/x/log.Panic": extLogPanic,

		// fmt (reflection): format-string interpreter
		"fmt.Sprintf":  func(fr *frame, args []value) value { return fmtSprintf(fr, args[0], args[1].([]value)) },
		"fmt.Errorf":   extErrorf,
		"fmt.Sprint":   func(fr *frame, args []value) value { return fmtSprint(fr, args[0].([]value), false) },
		"fmt.Sprintln": func(fr *frame, args []value) value { return fmtSprint(fr, args[0].([]value), true) },
		"fmt.Fprintf": func(fr *frame, args []value) value {
			return writeTo(fr, args[0], fmtSprintf(fr, args[1], args[2].([]value)))
		},
		"fmt.Fprint": func(fr *frame, args []value) value {
			return writeTo(fr, args[0], fmtSprint(fr, args[1].([]value), false))
		},
		"fmt.Fprintln": func(fr *frame, args []value) value {
			return writeTo(fr, args[0], fmtSprint(fr, args[1].([]value), true))
		},
		"fmt.Printf":  func(fr *frame, args []value) value { return toStdout(fr, fmtSprintf(fr, args[0], args[1].([]value))) },
		"fmt.Println": func(fr *frame, args []value) value { return toStdout(fr, fmtSprint(fr, args[0].([]value), true)) },
		"fmt.Print":   func(fr *frame, args []value) value { return toStdout(fr, fmtSprint(fr, args[0].([]value), false)) },

		// reflect.TypeOf: only as something printable (error and panic messages name dynamic types);
		// any method call on the result is unsupported
		"reflect.TypeOf": func(fr *frame, args []value) value {
			itf, _ := args[0].(iface)
			name := "<nil>"
			if itf.t != nil {
				name = types.TypeString(itf.t, func(p *types.Package) string { return p.Name() })
			}
			return iface{t: types.Typ[types.String], v: name}
		},

		// errors (reflectlite)
		"errors.Is": extErrorsIs,

		// sort (reflectlite swapper)
		"sort.Slice":       extSortSlice,
		"sort.SliceStable": extSortSlice,
	}
	for k, v := range externals {
		if v == nil {
			delete(externals, k)
		}
	}
}

// ---------------------------------------------------------------------
// bytealg

func seqOf(v value) (n int, at func(k int) value) {
	switch v := v.(type) {
	case string:
		return len(v), func(k int) value { return v[k] }
	case sstring:
		return len(v), func(k int) value { return v[k] }
	case []value:
		return len(v), func(k int) value { return v[k] }
	}
	panic(fmt.Sprintf("seqOf: %T", v))
}

func (i *interpreter) byteEq(a, b value) value {
	ac, aok := a.(uint8)
	bc, bok := b.(uint8)
	if aok && bok {
		return ac == bc
	}
	return boolV(i.ts.Cmp(opEq, i.toTerm(a), i.toTerm(b)))
}

func extIndexByte(fr *frame, args []value) value {
	n, at := seqOf(args[0])
	for k := 0; k < n; k++ {
		if fr.i.truth(fr.i.byteEq(at(k), args[1])) {
			return k
		}
	}
	return -1
}

func extCountByte(fr *frame, args []value) value {
	n, at := seqOf(args[0])
	c := 0
	for k := 0; k < n; k++ {
		if fr.i.truth(fr.i.byteEq(at(k), args[1])) {
			c++
		}
	}
	return c
}

func seqToStr(v value) value {
	switch v := v.(type) {
	case string, sstring:
		return v
	case []value:
		r := make(sstring, len(v))
		copy(r, v)
		return normStr(r)
	}
	panic("seqToStr")
}

func extBytesEqual(fr *frame, args []value) value {
	return fr.i.strEq(seqToStr(args[0]), seqToStr(args[1]))
}

func extCompare(fr *frame, args []value) value {
	a, b := seqToStr(args[0]), seqToStr(args[1])
	i := fr.i
	if i.truth(i.strEq(a, b)) {
		return 0
	}
	if i.truth(i.strLess(a, b, false)) {
		return -1
	}
	return 1
}

func extIndex(fr *frame, args []value) value {
	a, b := seqToStr(args[0]), seqToStr(args[1])
	i := fr.i
	na, nb := strLen(a), strLen(b)
	for k := 0; k+nb <= na; k++ {
		if i.truth(i.strEq(i.substr(a, k, k+nb), b)) {
			return k
		}
	}
	return -1
}

// ---------------------------------------------------------------------
// strings.Builder: struct { addr *Builder; buf []byte }

func builderBuf(i *interpreter, b value) []value {
	p := i.derefPtr(b)
	return (*p).(structure)[1].([]value)
}

func setBuilderBuf(i *interpreter, b value, buf []value) {
	p := i.derefPtr(b)
	s := (*p).(structure)
	i.logStore(&s[1])
	s[1] = buf
}

func extBuilderString(fr *frame, args []value) value {
	return fr.i.bytesToString(builderBuf(fr.i, args[0]))
}

func extBuilderWrite(fr *frame, args []value) value {
	n, at := seqOf(args[1])
	buf := builderBuf(fr.i, args[0])
	nb := make([]value, len(buf), len(buf)+n)
	copy(nb, buf)
	for k := 0; k < n; k++ {
		nb = append(nb, at(k))
	}
	setBuilderBuf(fr.i, args[0], nb)
	return tuple{n, iface{}}
}

// ---------------------------------------------------------------------
// sync

func extLock(fr *frame, args []value) value {
	if fr.i.sched != nil {
		fr.i.sched.lock(fr, args[0].(*value))
	}
	return nil
}

func extUnlock(fr *frame, args []value) value {
	if fr.i.sched != nil {
		fr.i.sched.unlock(fr, args[0].(*value))
	}
	return nil
}

func extGosched(fr *frame, args []value) value {
	if fr.i.sched != nil {
		fr.i.sched.yield(fr)
	}
	return nil
}

func extOnceDo(fr *frame, args []value) value {
	i := fr.i
	p := args[0].(*value)
	key := fmt.Sprintf("once:%p", p)
	if i.run != nil {
		if i.run.once[p] {
			return nil
		}
	}
	if i.userData[key] != nil {
		return nil
	}
	if i.run != nil {
		if i.run.once == nil {
			i.run.once = map[*value]bool{}
		}
		i.run.once[p] = true
	} else {
		i.userData[key] = true
	}
	call(i, fr, token.NoPos, args[1], nil)
	return nil
}

func extPoolGet(fr *frame, args []value) value {
	p := fr.i.derefPtr(args[0])
	s := (*p).(structure)
	st := fr.fn.Signature.Recv().Type().(*types.Pointer).Elem().Underlying().(*types.Struct)
	for k := 0; k < st.NumFields(); k++ {
		if st.Field(k).Name() == "New" {
			if !isNilFunc(s[k]) {
				return call(fr.i, fr, token.NoPos, s[k], nil)
			}
		}
	}
	return iface{}
}

func extAtomicLoad(fr *frame, args []value) value { return *fr.i.derefPtr(args[0]) }
func extAtomicStore(fr *frame, args []value) value {
	p := fr.i.derefPtr(args[0])
	fr.i.logStore(p)
	*p = args[1]
	return nil
}
func extAtomicAdd(fr *frame, args []value) value {
	p := fr.i.derefPtr(args[0])
	t := fr.fn.Signature.Params().At(1).Type()
	nv := fr.i.binop(token.ADD, t, t, *p, args[1])
	fr.i.logStore(p)
	*p = nv
	return nv
}
func extAtomicCAS(fr *frame, args []value) value {
	p := fr.i.derefPtr(args[0])
	t := fr.fn.Signature.Params().At(1).Type()
	if fr.i.truth(fr.i.equalsV(t, *p, args[1])) {
		fr.i.logStore(p)
		*p = args[2]
		return true
	}
	return false
}
func extAtomicSwap(fr *frame, args []value) value {
	p := fr.i.derefPtr(args[0])
	old := *p
	fr.i.logStore(p)
	*p = args[1]
	return old
}

// ---------------------------------------------------------------------
// os / log

func extFileWrite(fr *frame, args []value) value {
	n, _ := seqOf(args[1])
	return tuple{n, iface{}}
}

func extFatal(fr *frame, args []value) value {
	panic(pathEnd{kind: "exit", msg: "log.Fatal"})
}

func stringIface(s value) iface { return iface{t: types.Typ[types.String], v: s} }

func extLogPanic(fr *frame, args []value) value {
	s := fmtSprint(fr, args[0].([]value), true)
	panic(targetPanic{stringIface(s)})
}

func extLogPanicf(fr *frame, args []value) value {
	s := fmtSprintf(fr, args[0], args[1].([]value))
	panic(targetPanic{stringIface(s)})
}

// ---------------------------------------------------------------------
// fmt

// fmtArg renders one operand for verb (v, s, d, q, x, c, U, T ...).
func fmtArg(fr *frame, verb byte, flags string, a value) value {
	i := fr.i
	itf, ok := a.(iface)
	if !ok {
		return "%!" + string(verb) + "(?)"
	}
	if itf.t == nil {
		if verb == 'v' || verb == 's' {
			return "<nil>"
		}
		return "%!" + string(verb) + "(<nil>)"
	}
	if verb == 'T' {
		return itf.t.String()
	}
	// error / Stringer
	if verb == 'v' || verb == 's' || verb == 'q' {
		for _, mname := range []string{"Error", "String"} {
			if m := i.findMethod(itf.t, mname); m != nil && m.Signature.Params().Len() == 0 && m.Signature.Results().Len() == 1 {
				if b, ok := m.Signature.Results().At(0).Type().Underlying().(*types.Basic); ok && b.Kind() == types.String {
					if p, isPtr := itf.v.(*value); isPtr && p == nil {
						return "<nil>"
					}
					s := callSSA(i, fr, token.NoPos, m, []value{itf.v}, nil)
					if verb == 'q' {
						if cs, ok := s.(string); ok {
							return strconv.Quote(cs)
						}
						return strConcat(strConcat("\"", s), "\"")
					}
					return s
				}
			}
		}
	}
	switch v := itf.v.(type) {
	case string:
		switch verb {
		case 'q':
			return strconv.Quote(v)
		case 'x':
			return fmt.Sprintf("%x", v)
		case 'v', 's':
			return v
		case 'd':
			return "%!d(string=" + v + ")"
		}
		return fmt.Sprintf("%"+flags+string(verb), v)
	case sstring:
		switch verb {
		case 'q':
			return strConcat(strConcat("\"", v), "\"") // approximation: no escaping of symbolic bytes
		}
		return v
	case bool:
		return fmt.Sprintf("%"+flags+string(verb), v)
	case *Term:
		if (verb == 'd' || verb == 'v') && v.w > 0 && flags == "" {
			_, signed, _ := intInfo(itf.t)
			return i.symItoa(v, signed)
		}
		if verb == 'x' && v.w > 0 && flags == "" {
			_, signed, _ := intInfo(itf.t)
			if signed {
				return i.callNamed("strconv", "FormatInt", []value{normTerm(types.Typ[types.Int64], i.ts.SExt(v, 64)), 16})
			}
			return i.callNamed("strconv", "FormatUint", []value{normTerm(types.Typ[types.Uint64], i.ts.ZExt(v, 64)), 16})
		}
		if verb == 'c' || verb == 'U' || verb == 'q' || verb == 'x' || verb == 'X' {
			// render through the model-independent placeholder; content is not observable in our checks
			return "‹sym›"
		}
		return "‹sym›"
	case []value:
		if sl, ok := itf.t.Underlying().(*types.Slice); ok {
			if b, ok := sl.Elem().Underlying().(*types.Basic); ok && b.Kind() == types.Byte && (verb == 's' || verb == 'q') {
				s := i.bytesToString(v)
				if cs, ok := s.(string); ok && verb == 'q' {
					return strconv.Quote(cs)
				}
				return s
			}
		}
		var parts []value
		parts = append(parts, "[")
		for k, e := range v {
			if k > 0 {
				parts = append(parts, " ")
			}
			parts = append(parts, fmtArg(fr, verb, flags, iface{t: itf.t.Underlying().(*types.Slice).Elem(), v: e}))
		}
		parts = append(parts, "]")
		var acc value = ""
		for _, p := range parts {
			acc = strConcat(acc, p)
		}
		return acc
	case *value:
		if v == nil {
			return "<nil>"
		}
		return "0xc000000000"
	case structure, array, *gmap:
		return "{…}"
	}
	if bits, w, ok := scalarBits(itf.v); ok && w > 0 {
		_, signed, _ := intInfo(itf.t)
		if signed {
			return fmt.Sprintf("%"+flags+string(verb), sext64(bits, w))
		}
		return fmt.Sprintf("%"+flags+string(verb), bits)
	}
	switch v := itf.v.(type) {
	case float64:
		return fmt.Sprintf("%"+flags+string(verb), v)
	case float32:
		return fmt.Sprintf("%"+flags+string(verb), v)
	}
	return "‹?›"
}

// symItoa renders a symbolic integer in decimal with the real strconv code
// (forking on the digit count).
func (i *interpreter) symItoa(v *Term, signed bool) value {
	if signed {
		x := i.ts.SExt(v, 64)
		return i.callNamed("strconv", "FormatInt", []value{normTerm(types.Typ[types.Int64], x), 10})
	}
	x := i.ts.ZExt(v, 64)
	return i.callNamed("strconv", "FormatUint", []value{normTerm(types.Typ[types.Uint64], x), 10})
}

func fmtSprintf(fr *frame, format value, args []value) value {
	f, ok := format.(string)
	if !ok {
		return "‹symbolic format›"
	}
	var acc value = ""
	argi := 0
	for k := 0; k < len(f); k++ {
		c := f[k]
		if c != '%' {
			j := strings.IndexByte(f[k:], '%')
			if j < 0 {
				j = len(f) - k
			}
			acc = strConcat(acc, f[k:k+j])
			k += j - 1
			continue
		}
		k++
		if k >= len(f) {
			acc = strConcat(acc, "%!(NOVERB)")
			break
		}
		st := k
		for k < len(f) && strings.IndexByte("+-# 0123456789.*[]", f[k]) >= 0 {
			k++
		}
		if k >= len(f) {
			acc = strConcat(acc, "%!(NOVERB)")
			break
		}
		flags := f[st:k]
		verb := f[k]
		if verb == '%' {
			acc = strConcat(acc, "%")
			continue
		}
		if strings.Contains(flags, "*") {
			argi++
			flags = strings.ReplaceAll(flags, "*", "")
		}
		if argi >= len(args) {
			acc = strConcat(acc, "%!"+string(verb)+"(MISSING)")
			continue
		}
		a := args[argi]
		argi++
		if verb == 'w' {
			verb = 'v'
		}
		acc = strConcat(acc, fmtArg(fr, verb, flags, a))
	}
	return acc
}

func fmtSprint(fr *frame, args []value, ln bool) value {
	var acc value = ""
	for k, a := range args {
		if k > 0 {
			if ln {
				acc = strConcat(acc, " ")
			} else {
				// Sprint adds spaces between operands when neither is a string
				_, s1 := a.(iface).v.(string)
				_, s0 := args[k-1].(iface).v.(string)
				if !s1 && !s0 {
					acc = strConcat(acc, " ")
				}
			}
		}
		acc = strConcat(acc, fmtArg(fr, 'v', "", a))
	}
	if ln {
		acc = strConcat(acc, "\n")
	}
	return acc
}

// extErrorf builds a *fmt.wrapError / *errors.errorString equivalent.
func extErrorf(fr *frame, args []value) value {
	i := fr.i
	msg := fmtSprintf(fr, args[0], args[1].([]value))
	// find a %w operand
	var wrapped value
	if f, ok := args[0].(string); ok && strings.Contains(f, "%w") {
		n := 0
		for k := 0; k+1 < len(f); k++ {
			if f[k] == '%' {
				if f[k+1] == '%' {
					k++
					continue
				}
				j := k + 1
				for j < len(f) && strings.IndexByte("+-# 0123456789.", f[j]) >= 0 {
					j++
				}
				if j < len(f) && f[j] == 'w' && n < len(args[1].([]value)) {
					wrapped = args[1].([]value)[n]
				}
				n++
				k = j
			}
		}
	}
	fmtPkg := i.prog.ImportedPackage("fmt")
	if wrapped != nil && fmtPkg != nil {
		if wt := fmtPkg.Type("wrapError"); wt != nil {
			cell := value(structure{msg, wrapped})
			return iface{t: types.NewPointer(wt.Type()), v: &cell}
		}
	}
	errPkg := i.prog.ImportedPackage("errors")
	if errPkg != nil {
		if et := errPkg.Type("errorString"); et != nil {
			cell := value(structure{msg})
			return iface{t: types.NewPointer(et.Type()), v: &cell}
		}
	}
	i.unsupported("fmt.Errorf: errors package not loaded")
	return nil
}

// writeTo delivers s to an io.Writer value.
func writeTo(fr *frame, w value, s value) value {
	i := fr.i
	itf := w.(iface)
	n := strLen(s)
	if itf.t == nil {
		i.rtPanic("invalid memory address or nil pointer dereference")
	}
	if strings.HasSuffix(itf.t.String(), "os.File") {
		return tuple{n, iface{}}
	}
	m := i.findMethod(itf.t, "Write")
	if m == nil {
		i.unsupported("writeTo: no Write method on %s", itf.t)
	}
	bs := make([]value, n)
	for k := 0; k < n; k++ {
		bs[k] = strAt(s, k)
	}
	return callSSA(i, fr, token.NoPos, m, []value{itf.v, bs}, nil)
}

// ---------------------------------------------------------------------
// errors.Is

func extErrorsIs(fr *frame, args []value) value {
	i := fr.i
	err, target := args[0].(iface), args[1].(iface)
	if err.t == nil || target.t == nil {
		return err.t == nil && target.t == nil
	}
	comparable := types.Comparable(target.t)
	for depth := 0; depth < 50; depth++ {
		if comparable && types.Identical(err.t, target.t) {
			if i.truth(i.equalsV(err.t, err.v, target.v)) {
				return true
			}
		}
		if m := i.findMethod(err.t, "Is"); m != nil && m.Signature.Params().Len() == 1 {
			if i.truth(callSSA(i, fr, token.NoPos, m, []value{err.v, target}, nil)) {
				return true
			}
		}
		m := i.findMethod(err.t, "Unwrap")
		if m == nil || m.Signature.Results().Len() != 1 {
			return false
		}
		if _, isSlice := m.Signature.Results().At(0).Type().Underlying().(*types.Slice); isSlice {
			errs := callSSA(i, fr, token.NoPos, m, []value{err.v}, nil).([]value)
			for _, e := range errs {
				if i.truth(extErrorsIs(fr, []value{e, target})) {
					return true
				}
			}
			return false
		}
		next := callSSA(i, fr, token.NoPos, m, []value{err.v}, nil).(iface)
		if next.t == nil {
			return false
		}
		err = next
	}
	return false
}

// ---------------------------------------------------------------------
// sort.Slice: insertion sort calling the real less closure.

func extSortSlice(fr *frame, args []value) value {
	i := fr.i
	xs := args[0].(iface).v.([]value)
	less := args[1]
	n := len(xs)
	for a := 1; a < n; a++ {
		for b := a; b > 0; b-- {
			if !i.truth(call(i, fr, token.NoPos, less, []value{b, b - 1})) {
				break
			}
			i.logStore(&xs[b])
			i.logStore(&xs[b-1])
			xs[b], xs[b-1] = xs[b-1], xs[b]
		}
	}
	return nil
}

// findMethod returns the exported method name of type t, or nil.
func (i *interpreter) findMethod(t types.Type, name string) *ssa.Function {
	sel := i.prog.MethodSets.MethodSet(t).Lookup(nil, name)
	if sel == nil {
		return nil
	}
	return i.prog.MethodValue(sel)
}

// concF64: float arguments of math kernels must be concrete (floating point is outside the encoding).
func concF64(v value) float64 {
	f, ok := v.(float64)
	if !ok {
		panic(pathEnd{kind: "unsupported", msg: "symbolic floating point argument"})
	}
	return f
}

// toStdout: fmt.Print* write to the path's standard-output buffer while a harness captures it.
func toStdout(fr *frame, s value) value {
	r := fr.i.run
	if r != nil && r.stdout != nil {
		r.stdout = strConcat(r.stdout, s)
	}
	n, _ := seqOf(s)
	return tuple{n, iface{}}
}
